"""C12 - run-time tracebacks and compile warnings map to template lines.

Decided: printer line accounting (every stream write is matched by a
line-counter update), a source line (>= 1) is recorded before every emitted
line that can be the current line of a traceback frame, writer/reader
agreement (markers, keys, index base) of the line map, every compile / exec /
load of generated code lies inside the warning-translation region with the
same identifier.  What RichTraceback prints for arbitrary chains and the
warnings filter state machine are not decided."""

import ast

from ..core import rule, AnalysisError
from ..engine import emit, cfg as cfgmod, flow
from ..engine import pattern as P
from ..engine.facts import dotted, const, src, walk_func, enclosing_stmt, ancestors, str_value
from . import skeletons as sk
from .common import calls, stmt_nodes, contains, norm_successors, pn, access_paths, assigned_from, guards_of, arms, return_leaves, branch_paths, keyed_values, resolve, resolve_deep


@rule("C12.line-accounting", min_instances=6)
def line_accounting(ctx):
    """PythonPrinter: each write to the stream is matched by a line-counter update of the number of newlines written; only the printer writes the stream"""
    db = ctx.db
    ms = db.methods("pygen.PythonPrinter")
    n_writes = 0
    for name, fn in ms.items():
        ws = [c for c in calls(fn, "self.stream.write")]
        if not ws:
            continue
        ups = [c for c in calls(fn, "self._update_lineno")]
        for w in ws:
            n_writes += 1
            a = w.args[0]
            where = db.where(w)
            key = "%s:write#%d" % (name, ws.index(w))
            if isinstance(a, ast.BinOp) and isinstance(a.op, ast.Mult) and "\n" in (const(a.left, ""), const(a.right, "")):
                # "\n" * n   <->  _update_lineno(n)
                nvar = src(a.right if const(a.left) == "\n" else a.left)
                ok = any(src(u.args[0]) == nvar for u in ups)
                ctx.check(ok, key, where, "writes %s newlines but the line counter is not advanced by %s: every later line maps to the wrong template line" % (nvar, nvar), '"\\n" * %s <-> _update_lineno(%s)' % (nvar, nvar))
            elif isinstance(a, ast.BinOp) and isinstance(a.op, ast.Add) and const(a.right) == "\n":
                if name == "_flush_adjusted_lines":
                    # one write per buffered line; the counter was advanced when the line was buffered
                    ctx.ok(key, where, "one newline per buffered line (counted when buffered)")
                    continue
                # X + "\n"  <->  len(X.split("\n"))
                ok = any("split('\\n')" in src(u.args[0]) and src(u.args[0]).startswith("len(") for u in ups)
                same_block = any(getattr(enclosing_stmt(u), "_parent", None) is getattr(enclosing_stmt(w), "_parent", None) for u in ups)
                ctx.check(ok and same_block, key, where, "writes a line plus newline but the counter is not advanced by the number of lines written (len(line.split('\\n')))", 'X + "\\n" <-> _update_lineno(len(line.split("\\n")))')
            else:
                ctx.undecided(key, where, "stream.write argument `%s` is not a recognised idiom" % src(a))
    ctx.require(n_writes >= 4, "expected >=4 stream.write sites in PythonPrinter, found %d" % n_writes)
    # buffered blocks: one counter tick per buffered line, one write per buffered line
    wb = ms["write_indented_block"]
    loops = [n for n in walk_func(wb) if isinstance(n, ast.For)]
    ok = False
    if loops:
        body = loops[0].body
        apps = [s for s in body if "self.line_buffer.append" in src(s)]
        ticks = [s for s in body if src(s) == "self._update_lineno(1)"]
        ok = len(apps) == 1 and len(ticks) == 1
    ctx.check(ok, "block.tick-per-line", db.where(wb), "write_indented_block does not advance the counter by one per buffered line", "append + _update_lineno(1) per line")
    fl = ms["_flush_adjusted_lines"]
    loops = [n for n in walk_func(fl) if isinstance(n, ast.For) and "line_buffer" in src(n.iter)]
    ok = False
    if loops:
        g = cfgmod.CFG(loops[0].body, "flush-loop-body")
        wn = [x for c in ast.walk(loops[0]) if isinstance(c, ast.Call) and dotted(c.func) == "self.stream.write" for x in g.nodes_of(enclosing_stmt(c))]
        good, _ = g.must_pass(g.entry, wn, exits=[g.exit], kinds=("n",))
        nw = len([c for c in ast.walk(loops[0]) if isinstance(c, ast.Call) and dotted(c.func) == "self.stream.write"])
        ok = good and nw == 2
    ctx.check(ok, "block.write-per-line", db.where(fl), "_flush_adjusted_lines does not write exactly one line per buffered entry on every path", "exactly one write per buffered line")
    # block source lines recorded per line
    ss = [c for c in calls(wb, "self.start_source")]
    ctx.check(bool(ss) and P.has(wb, "for ($i, $l) in enumerate($x):\n    ...\n    if %s is not None:\n        self.start_source(%s + $i)\n    ..." % (pn(wb, 2), pn(wb, 2))), "block.source-per-line", db.where(wb), "code blocks do not record starting_lineno + i for every line", "start_source(starting_lineno + i) per block line")
    ul = ms["_update_lineno"]
    ctx.check(any(isinstance(n, ast.AugAssign) and dotted(n.target) == "self.lineno" and isinstance(n.op, ast.Add) and src(n.value) == ul.args.args[1].arg for n in walk_func(ul)), "update.adds", db.where(ul), "_update_lineno does not add its argument to self.lineno", "lineno += num")
    st = ms["start_source"]
    ctx.check(P.has(st, "if self.lineno not in self.source_map:\n    self.source_map[self.lineno] = $l"), "start_source", db.where(st), "start_source does not map the current module line to the template line (first writer wins)", "source_map[current line] = template line, first writer wins")
    init = ms["__init__"]
    a = [n for n in walk_func(init) if isinstance(n, ast.Assign) and dotted(n.targets[0]) == "self.lineno"]
    ctx.check(bool(a) and const(a[0].value) == 1, "lineno-base", db.where(init), "module line numbering does not start at 1", "self.lineno = 1")
    # nobody else writes the stream
    others = [c for c in db.all_calls(lambda nm: nm.endswith(".stream.write") or nm.endswith("printer.stream.write")) if getattr(getattr(c, "_func", None), "_qual", "").split(".")[0] != "pygen"]
    ctx.check(not others, "stream-owner", "mako/", "stream written outside the printer: %s" % [db.where(o) for o in others], "stream.write only in pygen.PythonPrinter")
    cg = db.mod("codegen")
    raw = [n for n in ast.walk(cg.tree) if isinstance(n, ast.Call) and (dotted(n.func) or "").endswith("buf.write")]
    ctx.check(not raw, "codegen-no-raw-write", "mako/codegen.py", "codegen writes the buffer directly: %s" % [db.where(r) for r in raw], "codegen emits only through the printer")


FRAME_EMITTERS = ["visitExpression", "visitControlLine", "visitText", "visitTextTag", "visitIncludeTag", "visitBlockTag", "visitCallTag",
                  "write_render_callable", "write_inline_def", "write_def_decl", "write_inherit", "write_namespaces", "write_cache_decorator"]


def _frame_bearing(line):
    """can this emitted line be the current line of a traceback frame that runs user-written code?"""
    lit = line.literal()
    holes = line.holes()
    if not holes:
        return False
    if all(h[2] == "r" for h in holes):
        return False  # only quoted names
    stripped = lit.strip()
    if stripped.startswith("#") or stripped.startswith("return ["):
        return False
    # holes written between quotes are names, not code
    quoted = set()
    parts = line.parts
    for i, p in enumerate(parts):
        if p[0] == "hole" and 0 < i < len(parts) - 1 and parts[i - 1][0] == "lit" and parts[i + 1][0] == "lit" and parts[i - 1][1][-1:] in "'\"" and parts[i + 1][1][:1] in "'\"":
            quoted.add(i)
    userish = [p for i, p in enumerate(parts) if p[0] == "hole" and i not in quoted and p[2] in ("s", "user", "join", "opt")]
    if not userish:
        return False
    # plain name bindings `x = context.get('x', UNDEFINED)` cannot raise
    if "context.get(" in lit and "UNDEFINED" in lit and "(" in lit:
        return False
    if "_mako_get_namespace(context" in lit and "_populate" not in lit and stripped.split("=")[0].strip() == "":
        return False
    return "(" in lit or stripped.startswith(("def ", "@", "for ", "if ", "while ", "with ", "return "))


@rule("C12.source-recorded", min_instances=10)
def source_recorded(ctx):
    """every emitted line that can be the current line of a frame running user code is preceded, within its emitter, by start_source(<line of that construct>) with a line >= 1"""
    db = ctx.db
    S = sk.get(db)
    n = 0
    for c in FRAME_EMITTERS:
        if c not in S.model.methods:
            continue
        bad = {}
        good = 0
        for t in S.model.method_traces(c):
            if t.outcome == "raise":
                continue
            covered = False
            for e in t.events:
                k = e[0]
                if k == "SRC":
                    covered = True
                elif k in ("CHILDREN", "CALL", "STAR", "USERBLOCK"):
                    # other constructs record their own lines; what follows would inherit *their* line
                    if k == "USERBLOCK":
                        kw = e[2]
                        if "starting_lineno" not in kw:
                            bad.setdefault("userblock", (e[3], "code block written without starting_lineno"))
                    covered = False if k != "USERBLOCK" else covered
                elif k == "LINE":
                    if _frame_bearing(e[1]):
                        if covered:
                            good += 1
                        else:
                            lit = e[1].literal().strip()
                            kind = lit.split("(")[0].split(" ")[0][:24] or "line"
                            bad.setdefault(kind, (e[2], "`%s` is emitted with no start_source before it in %s: a frame stopped on this line is reported against whatever template line was recorded last" % (e[1].text(), c)))
        n += 1
        for kind, (node, msg) in sorted(bad.items()):
            ctx.violation("emit:codegen.%s#no-start_source:%s" % (c, kind), db.where(node), msg)
        if not bad:
            ctx.ok("emit:codegen.%s" % c, "mako/codegen.py (%s)" % c, "%d frame-bearing lines, each preceded by start_source" % good)
    # the recorded line is >= 1: constant propagation of what reaches start_source
    tn = db.func("parsetree.TemplateNode.__init__")
    sup = [c_ for c_ in walk_func(tn) if isinstance(c_, ast.Call) and "__init__" in (dotted(c_.func) or "")]
    zero = bool(sup) and len(sup[0].args) >= 2 and const(sup[0].args[1]) == 0
    wr = db.func("codegen._GenerateRenderMethod.write_render_callable")
    ss = calls(wr, "self.printer.start_source")
    init = db.func("codegen._GenerateRenderMethod.__init__")
    call = calls(init, "self.write_render_callable")
    if ss and call and zero:
        arg0 = src(call[0].args[0])
        uses_param = src(ss[0].args[0]) == "node.lineno"
        if uses_param and arg0 in ("pagetag or node", "node"):
            ctx.violation("emit:codegen.write_render_callable#line-0", db.where(ss[0]),
                          "render_body of a template without <%%page> records template line 0 (TemplateNode is created with lineno 0 and is passed as `%s`): frames in its prologue (e.g. strict_undefined NameError) are reported at line 0 / the last line of the template" % arg0)
        else:
            ctx.ok("emit:codegen.write_render_callable#line>=1", db.where(ss[0]), "line source is %s" % src(ss[0].args[0]))
    else:
        ctx.ok("emit:codegen.write_render_callable#line>=1", db.where(wr), "TemplateNode line is %s" % ("0" if zero else "not the constant 0"))


def _locator(db, outer_q):
    """the function a warning region hands to _show_warnings_as: the one that decides where a warning is shown"""
    outer = db.func(outer_q)
    for c in walk_func(outer):
        if isinstance(c, ast.Call) and dotted(c.func) == "_show_warnings_as" and len(c.args) == 1 and isinstance(c.args[0], ast.Name):
            for s in walk_func(outer):
                if isinstance(s, ast.FunctionDef) and s.name == c.args[0].id and s is not outer:
                    return s
            # ... or a function of the module (a locator that needs no state of its own)
            for s in db.mod(outer_q.split(".")[0]).tree.body:
                if isinstance(s, ast.FunctionDef) and s.name == c.args[0].id:
                    return s
    raise AnalysisError("%s: the function handed to _show_warnings_as was not found" % outer_q)


def _full_line_map_names(db, fns):
    """{(function, local name)} of the locals that hold a module's full_line_map list, followed through tuple packing /
    unpacking, per-file caches (`cache[k] = (a, b)` ... `a, b = cache[k]`) and the return values of split-off helpers"""
    F = set()

    def has_full(e):
        return any(isinstance(x, ast.Subscript) and const(x.slice) == "full_line_map" for x in ast.walk(e))

    def elts(f, e):
        """per position: is this element of a tuple-valued expression a full line map"""
        if isinstance(e, ast.Tuple):
            return [has_full(x) or (isinstance(x, ast.Name) and (f, x.id) in F) for x in e.elts]
        if isinstance(e, ast.Name):
            # a local holding a tuple
            for s in ast.walk(f):
                if isinstance(s, ast.Assign) and len(s.targets) == 1 and isinstance(s.targets[0], ast.Name) and s.targets[0].id == e.id:
                    r = elts(f, s.value)
                    if r:
                        return r
        if isinstance(e, ast.Call):
            for h in fns:
                nm = c_name(e)
                if nm == h.name and h is not f:
                    for r in ast.walk(h):
                        if isinstance(r, ast.Return) and r.value is not None:
                            x = elts(h, r.value)
                            if x:
                                return x
        if isinstance(e, ast.Subscript):
            # cache[k]: what was stored under the same container
            for s in ast.walk(f):
                if isinstance(s, ast.Assign) and isinstance(s.targets[0], ast.Subscript) and src(s.targets[0].value) == src(e.value):
                    x = elts(f, s.value)
                    if x:
                        return x
        return None

    def c_name(c):
        return c.func.id if isinstance(c.func, ast.Name) else c.func.attr if isinstance(c.func, ast.Attribute) else None
    for _round in range(4):
        before = len(F)
        for f in fns:
            scope = [f] + [a for a in ancestors(f) if isinstance(a, ast.FunctionDef)]
            for sc in scope:
                for s in ast.walk(sc):
                    if not isinstance(s, ast.Assign):
                        continue
                    for t in s.targets:
                        if isinstance(t, ast.Name) and (has_full(s.value) or (isinstance(s.value, ast.Name) and (f, s.value.id) in F)):
                            F.add((f, t.id))
                        if isinstance(t, ast.Name) and isinstance(s.value, ast.Call):
                            for h in fns:
                                if c_name(s.value) == h.name and h is not f and any(isinstance(r, ast.Return) and r.value is not None and (has_full(r.value) or (isinstance(r.value, ast.Name) and (h, r.value.id) in F)) and not isinstance(r.value, ast.Tuple) for r in ast.walk(h)):
                                    F.add((f, t.id))
                        if isinstance(t, ast.Tuple):
                            fl = elts(f, s.value)
                            if fl and len(fl) == len(t.elts):
                                for x, is_full in zip(t.elts, fl):
                                    if is_full and isinstance(x, ast.Name):
                                        F.add((f, x.id))
        if len(F) == before:
            break
    return F


@rule("C12.metadata", min_instances=7)
def metadata(ctx):
    """module metadata: writer and readers agree on markers, keys and the index base of full_line_map"""
    db = ctx.db
    wm = db.func("codegen._GenerateRenderMethod.write_metadata_struct")
    rd = db.func("template.ModuleInfo.get_module_source_metadata")
    wt = src(wm)
    dicts = [n for n in walk_func(wm) if isinstance(n, ast.Dict)]
    ctx.require(dicts, "write_metadata_struct: struct dict not found")
    keys = {const(k) for k in dicts[0].keys}
    ctx.check({"filename", "uri", "source_encoding", "line_map"} <= keys, "writer.keys", db.where(dicts[0]), "metadata keys written: %s" % sorted(keys), sorted(keys))
    lm = dict(zip([const(k) for k in dicts[0].keys], dicts[0].values)).get("line_map")
    ctx.check(lm is not None and src(lm) == "self.printer.source_map", "writer.line_map", db.where(dicts[0]), "line_map is not the printer's source_map", "line_map = printer.source_map")
    strs = [str_value(a) for c in calls(wm, "self.printer.writelines", "self.printer.writeline") for a in c.args]
    has_b = any(s and "__M_BEGIN_METADATA" in s for s in strs)
    has_e = any(s and "__M_END_METADATA" in s for s in strs)
    rx_call = [c for c in calls(rd, "re.search")]
    ctx.require(rx_call, "get_module_source_metadata: re.search not found")
    pat = str_value(rx_call[0].args[0]) or ""
    ctx.check(has_b and has_e and pat.startswith("__M_BEGIN_METADATA") and pat.endswith("__M_END_METADATA"), "markers", db.where(rx_call[0]), "writer markers and reader pattern %r disagree" % pat, "same BEGIN/END markers")
    jd = [c_ for c_ in walk_func(wm) if isinstance(c_, ast.Call) and dotted(c_.func) == "json.dumps" and c_.args]
    structs = {s_.targets[0].id for s_ in wm.body if isinstance(s_, ast.Assign) and isinstance(s_.targets[0], ast.Name) and isinstance(s_.value, ast.Dict)}
    ctx.check(bool(jd) and (isinstance(jd[0].args[0], ast.Dict) or src(jd[0].args[0]) in structs) and P.has(rd, "json.loads($x)"), "json", db.where(wm), "writer/reader do not both use json", "json.dumps / json.loads")
    # terminal entry
    term = [n for n in walk_func(wm) if isinstance(n, ast.Assign) and "source_map[self.printer.lineno]" in src(n.targets[0])]
    ctx.check(bool(term) and src(term[0].value) == "max(self.printer.source_map)", "writer.terminal", db.where(term[0]) if term else db.where(wm), "no terminal line_map entry at the last module line", "terminal entry source_map[last line]")
    # full_line_map: built for module lines 1 .. max-1, readers index with lineno - 1
    rng = [c for c in ast.walk(rd) if isinstance(c, ast.Call) and dotted(c.func) == "range"]
    ctx.require(rng, "full_line_map loop not found")
    r0 = rng[0]
    base = const(r0.args[0]) if len(r0.args) >= 2 else 0
    # the loop runs to max(<the line map with integer keys>): the map is read back from, or is what was stored under, 'line_map'
    stored = [src(v_) for v_ in keyed_values(rd, "line_map")]
    def _is_line_map(e_):
        r_ = resolve(rd, e_)
        return (isinstance(r_, ast.Subscript) and const(r_.slice) == "line_map") or src(e_) in stored or src(r_) in stored
    loops = [l_ for l_ in walk_func(rd) if isinstance(l_, ast.For) and l_.iter is r0]
    okr = len(r0.args) == 2 and bool(loops) and P.matches(r0.args[1], "max($lm)") and _is_line_map(r0.args[1].args[0])
    ctx.check(okr, "reader.range", db.where(r0), "full_line_map covers %s" % src(r0), "module lines %s .. max(line_map)-1" % base)
    carry = False
    for l_ in loops:
        env = {}
        if P.matches(l_, "for $m in range($_, $_):\n    if $m in $lm:\n        $c = $lm[$m]\n    $f.append($c)", env) or P.matches(l_, "for $m in range($_, $_):\n    $c = $lm.get($m, $c)\n    $f.append($c)", env):
            # the list filled is the one published as full_line_map
            pub = [resolve(rd, v_) for v_ in keyed_values(rd, "full_line_map")]
            fl_ = env["f"][1]
            inits = [s_ for s_ in walk_func(rd) if isinstance(s_, ast.Assign) and any(src(t_) == src(fl_) for t_ in s_.targets)]
            carry = _is_line_map(env["lm"][1]) and (any(src(v_) == src(fl_) for v_ in keyed_values(rd, "full_line_map")) or any(isinstance(t_, ast.Subscript) and const(t_.slice) == "full_line_map" for s_ in inits for t_ in s_.targets))
    ctx.check(carry, "reader.carry-forward", db.where(rd), "lines without an entry do not carry the previous template line forward", "carry forward")
    readers = []
    for q in ("exceptions.RichTraceback._init", "template._translate_module_warnings._locate"):
        fn = db.func(q) if q.startswith("exceptions") else _locator(db, "template._translate_module_warnings")
        fns_ = db.with_helpers(fn)
        full = _full_line_map_names(db, fns_)
        for f_ in fns_:
            for n in walk_func(f_):
                if isinstance(n, ast.Subscript) and isinstance(n.ctx, ast.Load) and isinstance(n.value, ast.Name) and (f_, n.value.id) in full and not isinstance(n.slice, (ast.Constant, ast.Slice)):
                    readers.append((q, n))
    ctx.require(len(readers) >= 2, "full_line_map readers not found (%d)" % len(readers))
    for q, n in readers:
        ok = isinstance(n.slice, ast.BinOp) and isinstance(n.slice.op, ast.Sub) and isinstance(n.slice.left, ast.Name) and const(n.slice.right) == base
        ctx.check(ok, "reader.index:" + q, db.where(n), "%s indexes full_line_map with `%s` but the list starts at module line %s: every frame is mapped to a neighbouring line" % (q, src(n.slice), base), "index lineno - %s" % base)
    for q in ("exceptions.RichTraceback._init", "template._translate_module_warnings._locate"):
        fn = db.func(q) if q.startswith("exceptions") else _locator(db, "template._translate_module_warnings")
        ctx.check(any("full_line_map" in src(f_) for f_ in db.with_helpers(fn)), "reader.full:" + q, db.where(fn), "%s does not request the full line map" % q, "requests full_line_map")


@rule("C12.warning-regions", min_instances=8)
def warning_regions(ctx):
    """every compile/exec/load of generated source lies inside _translate_module_warnings with the identifier compile()/load_module() uses; every _compile inside _drop_expression_warnings; the expression filename is one shared symbol"""
    db = ctx.db

    def inside_with(node, fname):
        for a in ancestors(node):
            if isinstance(a, ast.With):
                for it in a.items:
                    if isinstance(it.context_expr, ast.Call) and dotted(it.context_expr.func) == fname:
                        return it.context_expr
        return None

    ct = db.func("template._compile_text")
    comp = calls(ct, "compile")
    ex = calls(ct, "exec")
    ctx.require(comp and ex, "_compile_text: compile/exec not found")
    w = inside_with(comp[0], "_translate_module_warnings")
    ctx.check(w is not None, "compile_text.compile-in-region", db.where(comp[0]), "compile() of the generated module is outside _translate_module_warnings: SyntaxWarnings are shown against the module, not the template", "inside the translation region")
    ctx.check(inside_with(ex[0], "_translate_module_warnings") is not None, "compile_text.exec-in-region", db.where(ex[0]), "exec of the module body is outside the translation region", "inside the translation region")
    if w is not None:
        ctx.check(src(w.args[1]) == src(comp[0].args[1]), "compile_text.same-id", db.where(w), "the translator filters on %s but compile() is given %s as filename" % (src(w.args[1]), src(comp[0].args[1])), "same identifier %s" % src(w.args[1]))
        ctx.check(P.matches(w.args[2], "%s or %s.uri" % (pn(ct, 2), pn(ct, 0))) or src(w.args[2]) == pn(ct, 2), "compile_text.shown-as", db.where(w), "warnings are shown as %s" % src(w.args[2]), "shown as filename or template uri")
        srcv = assigned_from(ct, "_compile(...)#0")
        ctx.check(isinstance(w.args[0], ast.Lambda) and src(w.args[0].body) in srcv, "compile_text.get-source", db.where(w), "line map is read from %s" % src(w.args[0]), "line map from the generated source")
    cm = calls(ct, "_compile")
    ctx.check(bool(cm) and inside_with(cm[0], "_drop_expression_warnings") is not None, "compile_text.drop-region", db.where(cm[0]) if cm else db.where(ct), "_compile is not wrapped in _drop_expression_warnings: expression-level warnings are shown twice / at <unknown>", "inside _drop_expression_warnings")
    # loader/spec before exec
    modv = assigned_from(ct, "types.ModuleType($i)")
    spec = [n for n in walk_func(ct) if isinstance(n, ast.Assign) and isinstance(n.targets[0], ast.Attribute) and n.targets[0].attr in ("__spec__", "__loader__") and src(n.targets[0].value) in modv]
    ctx.check(len(spec) == 2 and all(s.lineno < ex[0].lineno for s in spec), "compile_text.loader-before-exec", db.where(ex[0]), "in-memory module gets no loader/spec before it is executed", "loader and spec set before exec")
    cf = db.func("template.Template._compile_from_file")
    cf_group = db.with_helpers(cf)
    loads = [c_ for g_ in cf_group for c_ in calls(g_, "compat.load_module")]
    regs = [c_ for g_ in cf_group for c_ in calls(g_, "_compile_module_file")]
    ctx.require(loads and regs, "_compile_from_file: load / regenerate sites not found (anchor)")
    # regenerating a module file compiles the template: its warnings are to be shown against the template as well
    for r in regs:
        ctx.check(inside_with(r, "_translate_module_warnings") is not None, "from_file.regenerate-in-region:%d" % regs.index(r), db.where(r),
                  "a module file is regenerated outside _translate_module_warnings: warnings raised while that module is compiled are shown against the generated .py file and line", "inside the translation region")
    for l in loads:
        w = inside_with(l, "_translate_module_warnings")
        ctx.check(w is not None, "from_file.load-in-region:%d" % loads.index(l), db.where(l), "load_module is outside the translation region", "inside the translation region")
        if w is not None:
            ctx.check(src(w.args[1]) == src(l.args[1]) == "path", "from_file.same-id:%d" % loads.index(l), db.where(w), "translator filters on %s, module is loaded from %s" % (src(w.args[1]), src(l.args[1])), "same path")
            ctx.check(src(w.args[2]) == "filename", "from_file.shown-as", db.where(w), "shown as %s" % src(w.args[2]), "shown as the template filename")
    for r in regs:
        ctx.check(inside_with(r, "_drop_expression_warnings") is not None, "from_file.drop-region:%d" % regs.index(r), db.where(r), "_compile_module_file outside _drop_expression_warnings", "inside _drop_expression_warnings")
    # in-memory compile path of files
    ctc = calls(cf, "_compile_text")
    ctx.check(bool(ctc), "from_file.memory-path", db.where(cf), "no in-memory compile path", "file without module directory goes through _compile_text")
    # the dropper tests the very filename the expression parser compiles under
    dl = _locator(db, "template._drop_expression_warnings")
    ctx.check("pyparser.EXPRESSION_FILENAME" in src(dl), "expr-filename.dropper", db.where(dl), "dropper does not test pyparser.EXPRESSION_FILENAME", "tests pyparser.EXPRESSION_FILENAME")
    pp = db.func("pyparser.parse")
    pc = [c for c in walk_func(pp) if isinstance(c, ast.Call) and (dotted(c.func) or "").endswith("parse")]
    ctx.check(bool(pc) and any(src(a) == "EXPRESSION_FILENAME" for a in pc[0].args), "expr-filename.parser", db.where(pp), "pyparser.parse does not compile under EXPRESSION_FILENAME", "parses under EXPRESSION_FILENAME")
    au = db.func("_ast_util.parse")
    t = src(au)
    ctx.check(P.has(au, "compile($e, filename, $m, PyCF_ONLY_AST)"), "expr-filename.passed", db.where(au), "_ast_util.parse does not pass the filename to compile()", "filename passed to compile()")
    tl = _locator(db, "template._translate_module_warnings")
    ctx.check(P.has(tl, "if $w != module_id:\n    return ($w, $l)"), "translate.passthrough", db.where(tl), "warnings of other files are not passed through unchanged", "other files unchanged")
    sw = db.func("template._show_warnings_as._show")
    swa = db.func("template._show_warnings_as")
    orig = assigned_from(swa, "warnings.showwarning")
    locv = assigned_from(sw, "%s($_, $_, $_, $_)" % pn(swa, 0))
    fwd = [c_ for o_ in orig for c_ in walk_func(sw) if isinstance(c_, ast.Call) and dotted(c_.func) == o_ and len(c_.args) == 6]
    ctx.check(len(locv) == 1 and len(fwd) == 1 and ("%s is None" % sorted(locv)[0], False) in guards_of(fwd[0], sw), "show.once", db.where(sw), "the hook does not show each warning exactly once through the original hook", "dropped or forwarded exactly once")


@rule("C12.line-split-agreement", min_instances=3, props=["C11"])
def line_split_agreement(ctx):
    """template source is split into lines for display exactly the way the lexer counts them (at \\n only): RichTraceback and the error templates must not use splitlines(), which also breaks at form feed, NEL, U+2028, lone CR..."""
    db = ctx.db
    mr = db.func("lexer.Lexer.match_reg")
    ctx.check("count('\\n')" in src(mr), "lexer-counts-newlines", db.where(mr), "the lexer no longer counts lines by '\\n'", "lexer counts \\n")
    ri = db.func("exceptions.RichTraceback._init")
    ris = db.with_helpers(ri)
    bad = [c for f_ in ris for c in ast.walk(f_) if isinstance(c, ast.Call) and isinstance(c.func, ast.Attribute) and c.func.attr == "splitlines"]
    good = [c for f_ in ris for c in ast.walk(f_) if isinstance(c, ast.Call) and isinstance(c.func, ast.Attribute) and c.func.attr == "split" and c.args and const(c.args[0]) == "\n" and "template_source" in src(c.func.value)]
    if bad:
        ctx.violation("RichTraceback.split", db.where(bad[0]), "RichTraceback splits the template source with splitlines(): a template containing a form feed, U+2028 or a lone CR above the fault shows the text of a different line for every template frame")
    else:
        ctx.check(bool(good), "RichTraceback.split", db.where(ri), "RichTraceback does not split the template source at '\\n'", "template_source.split('\\n')")
    # the error templates are Mako templates held in string constants
    m = db.mod("exceptions")
    n = 0
    for node in ast.walk(m.tree):
        if isinstance(node, ast.Constant) and isinstance(node.value, str) and "RichTraceback" in node.value and "<%" in node.value:
            n += 1
            f = getattr(node, "_func", None)
            q = getattr(f, "_qual", "?")
            if "splitlines(" in node.value:
                ctx.violation("template.split:" + q, db.where(node), "the error template in %s splits the source with splitlines(): the highlighted line is not the line the exception names when the template contains other line-boundary characters" % q)
            elif ".split(" in node.value:
                ctx.check(".split('\\n')" in node.value or '.split("\\n")' in node.value, "template.split:" + q, db.where(node), "the error template in %s splits the source at something other than \\n" % q, "split('\\n')")
            else:
                ctx.ok("template.split:" + q, db.where(node), "no line splitting in this template")
    ctx.require(n >= 2, "error templates not found in exceptions.py")


def _elem_index(fn, e, depth=3):
    """(k) when expression e denotes element k of a record tuple: `x[k]`, or a name bound from `x[k]` / by unpacking `x[a:b]`"""
    if isinstance(e, ast.Subscript) and isinstance(const(e.slice), int) and not isinstance(e.value, ast.Subscript):
        return const(e.slice)
    if isinstance(e, ast.Subscript) and isinstance(const(e.slice), int) and isinstance(e.value, ast.Subscript) and isinstance(e.value.slice, ast.Slice):
        lo = const(e.value.slice.lower) if e.value.slice.lower is not None else 0
        return lo + const(e.slice) if isinstance(lo, int) else None
    if isinstance(e, ast.Name) and depth:
        for s in walk_func(fn):
            if not isinstance(s, ast.Assign) or len(s.targets) != 1:
                continue
            t = s.targets[0]
            if isinstance(t, ast.Name) and t.id == e.id:
                return _elem_index(fn, s.value, depth - 1)
            if isinstance(t, (ast.Tuple, ast.List)):
                for i, el in enumerate(t.elts):
                    if isinstance(el, ast.Name) and el.id == e.id and isinstance(s.value, ast.Subscript) and isinstance(s.value.slice, ast.Slice):
                        lo = const(s.value.slice.lower) if s.value.slice.lower is not None else 0
                        return lo + i if isinstance(lo, int) else None
                    if isinstance(el, ast.Name) and el.id == e.id and isinstance(s.value, ast.Name):
                        return i  # unpacking the whole record
    return None


@rule("C12.template-frame-test", min_instances=2)
def template_frame_test(ctx):
    """RichTraceback marks a frame as a template frame by a record element that is None for ordinary frames and the template's line text otherwise; that text may be the empty string (blank template line), so the readers must test identity with None, not truthiness"""
    db = ctx.db
    init = db.func("exceptions.RichTraceback._init")
    # which element holds the template line: the one the readers hand out as the `line` (4th item) of a template frame
    ks = []
    for name, fn in sorted(db.methods("exceptions.RichTraceback").items()):
        if fn is init:
            continue
        for g in db.with_helpers(fn):
            for t in walk_func(g):
                if isinstance(t, ast.Tuple) and len(t.elts) == 4 and isinstance(t.ctx, ast.Load):
                    idx = [_elem_index(g, e) for e in t.elts]
                    if all(isinstance(i_, int) for i_ in idx) and idx != [0, 1, 2, 3] and idx[2] == 2:
                        ks.append((idx[3], t))
    ctx.require(ks, "RichTraceback: the reader that builds (template file, template line number, function, template line) from a record was not found (anchor)")
    k = ks[0][0]
    ctx.ok("line-element", db.where(ks[0][1]), "the template line text is element %d of a record (None for ordinary frames, possibly '' for a blank template line)" % k)
    n = 0
    for name, fn in sorted(db.methods("exceptions.RichTraceback").items()):
        if fn is init:
            continue
        for g in db.with_helpers(fn):
            for t in walk_func(g):
                tests = []
                if isinstance(t, (ast.If, ast.IfExp, ast.While)):
                    tests = [t.test]
                elif isinstance(t, ast.comprehension):
                    tests = list(t.ifs)
                for test in tests:
                    atoms = [test]
                    while atoms:
                        a = atoms.pop()
                        if isinstance(a, ast.BoolOp):
                            atoms.extend(a.values)
                        elif isinstance(a, ast.UnaryOp) and isinstance(a.op, ast.Not):
                            atoms.append(a.operand)
                        elif isinstance(a, ast.Compare) and len(a.ops) == 1 and isinstance(a.ops[0], (ast.Is, ast.IsNot)) and isinstance(a.comparators[0], ast.Constant) and a.comparators[0].value is None:
                            if _elem_index(g, a.left) == k:
                                n += 1
                                ctx.ok("reader:%s:%s" % (g.name, " ".join(src(a).split())[:40]), db.where(a), "identity test against None")
                        elif _elem_index(g, a) == k:
                            n += 1
                            ctx.violation("reader:%s:truthiness" % g.name, db.where(a),
                                          "`%s` tests the template line of a record for truth: a template frame whose line is blank (empty string) is taken for an ordinary Python frame and reported with the generated module's file name, line and source" % " ".join(src(a).split())[:60])
    ctx.require(n >= 1, "no reader of the template-line element found in RichTraceback (anchor)")


@rule("C12.module-path-absolute", min_instances=1)
def module_path_absolute(ctx):
    """the file name under which a module-directory template's module is registered (ModuleInfo, warning translation) is absolute, like the __file__ / traceback file names the import machinery reports for it"""
    db = ctx.db
    init = db.func("template.Template.__init__")
    joins = [(g, c) for g in db.with_helpers(init) for c in walk_func(g)
             if isinstance(c, ast.Call) and dotted(c.func) in ("os.path.join", "posixpath.join") and any("module_directory" in src(a) for a in c.args)]
    ctx.require(joins, "Template.__init__: construction of the module path below module_directory not found (anchor)")
    ABS = ("os.path.abspath", "os.path.realpath")
    for g, c in joins:
        wrapped = any(isinstance(a, ast.Call) and dotted(a.func) in ABS for a in ancestors(c))
        if not wrapped and c.args:
            # the directory made absolute first: joining onto an absolute path gives an absolute path
            first = resolve_deep(g, c.args[0], 3)
            wrapped = any(isinstance(a, ast.Call) and dotted(a.func) in ABS for a in ast.walk(first))
        if not wrapped:
            st = enclosing_stmt(c)
            tgt = st.targets[0].id if isinstance(st, ast.Assign) and len(st.targets) == 1 and isinstance(st.targets[0], ast.Name) else None
            if tgt:
                wrapped = any(isinstance(a, ast.Call) and dotted(a.func) in ABS and a.args and isinstance(a.args[0], ast.Name) and a.args[0].id == tgt and a.lineno > c.lineno for a in walk_func(g))
        ctx.check(wrapped, "module-directory-path", db.where(c),
                  "the module path below module_directory is not made absolute (`%s`): with a relative module_directory the module is registered under a relative name while Python reports its frames and warnings under the absolute one, so they are no longer mapped back to the template" % " ".join(src(enclosing_stmt(c)).split())[:100],
                  "os.path.abspath applied")


@rule("C12.frame-cache-key", min_instances=2)
def frame_cache_key(ctx):
    """what RichTraceback remembers about a template module while it walks one traceback (line map, template lines, file name) is remembered under the very file name the frame was looked up with: two modules never share an entry"""
    db = ctx.db
    init = db.func("exceptions.RichTraceback._init")
    fns = [init] + [f for g in db.with_helpers(init) for f in ast.walk(g) if isinstance(f, ast.FunctionDef) and f is not init]
    seen = set()
    fns = [f for f in fns if not (id(f) in seen or seen.add(id(f)))]
    empties = {a.targets[0].id for f in fns for a in walk_func(f) if isinstance(a, ast.Assign) and len(a.targets) == 1 and isinstance(a.targets[0], ast.Name) and isinstance(a.value, ast.Dict) and not a.value.keys}
    looked = []
    for f in fns:
        for c in walk_func(f):
            if isinstance(c, ast.Call) and (dotted(c.func) or "").endswith("_get_module_info") and c.args:
                looked.append((f, c))
    ctx.require(looked, "RichTraceback._init: the look-up of the frame's module (_get_module_info) was not found (anchor)")
    # names that stand for the file name of the frame at hand: the first element unpacked from a raw traceback record, and the
    # parameters through which helpers receive it
    frame_names = set()
    for f in fns:
        for lp in walk_func(f):
            if isinstance(lp, ast.For) and isinstance(lp.target, ast.Tuple) and len(lp.target.elts) == 4 and isinstance(lp.target.elts[0], ast.Name):
                frame_names.add(lp.target.elts[0].id)
    for f, c in looked:
        a0 = resolve_deep(f, c.args[0])
        if isinstance(a0, ast.Name):
            frame_names.add(a0.id)
    n = 0
    for f in fns:
        for s_ in walk_func(f):
            if isinstance(s_, ast.Subscript) and isinstance(s_.value, ast.Name) and s_.value.id in empties and not isinstance(s_.slice, ast.Slice):
                k_ = resolve_deep(f, s_.slice)
                key = " ".join(src(k_).split())
                n += 1
                ctx.check(isinstance(k_, ast.Name) and k_.id in frame_names, "key:%s" % ("store" if isinstance(s_.ctx, ast.Store) else "load"), db.where(s_),
                          "the per-traceback memo `%s` is indexed by `%s`, not by the file name the frame's module was looked up with: two template modules that agree on that value (the same uri served by two lookups, each with its own module directory) share one entry, and the second one's frames are reported with the first one's file name, line map and source" % (s_.value.id, key),
                          "memo indexed by the file name of the frame")
    ctx.require(n >= 2, "RichTraceback._init: the memo of template modules was not found (anchor)")
