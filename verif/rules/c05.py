"""C05 - defs write at the call site; buffering, capture, calls with content.

Frame/buffer/writer pairing is C13's skeleton typestate (registered for C05
too).  Here: return convention per flag combination, nextcaller protocol of
calls with content, agreement of the def emitters with the cache wrapper,
completeness of the signature reader."""

import ast

from ..core import rule, AnalysisError
from ..engine import emit, typestate
from ..engine import pattern as P
from ..engine.facts import dotted, const, src, walk_func, ancestors, enclosing_stmt
from .common import contains
from . import skeletons as sk
from .common import pn, access_paths, guards_of, branch_paths, return_leaves, arms
from . import c13  # registers skeleton-typestate and runtime-pairing for C05


def _def_node(s):
    """the emitted def (first FunctionDef inside the wrapper)"""
    w = s.tree.body[0]
    for st in w.body:
        if isinstance(st, ast.FunctionDef):
            return st
    return None


def _top_writes(stmts):
    out = []
    for st in stmts:
        if isinstance(st, ast.Expr) and isinstance(st.value, ast.Call) and dotted(st.value.func) == "__M_writer":
            out.append(st)
    return out


def _line_event(s, pred):
    for e in s.trace.events:
        if e[0] == "LINE" and pred(e[1]):
            yield e


def _all_lines(events):
    for e in events:
        if e[0] == "LINE":
            yield e
        elif e[0] == "STAR":
            for a in e[1]:
                yield from _all_lines(a.events)


@rule("C05.return-convention", min_instances=16, props=["C17"])
def return_convention(ctx):
    """after the finally: unbuffered defs write and return ''; buffered/cached return the (filtered) content and write nothing; filtered-only writes the filtered content exactly once"""
    db = ctx.db
    S = sk.get(db)
    for c in ("write_render_callable", "write_inline_def"):
        seen = set()
        for s in S.build(c):
            f = s.flags()
            if not {"buffered", "filtered", "cached"} <= set(f):
                ctx.undecided("%s[%s]" % (c, s.flagtag()), "mako/codegen.py (%s)" % c, "flag atoms not recognised in %s" % sorted(s.trace.asg))
                continue
            key = "%s[buffered=%d,filtered=%d,cached=%d]" % (c, f["buffered"], f["filtered"], f["cached"])
            if s.tree is None:
                continue  # reported by skeleton-typestate
            d = _def_node(s)
            if d is None:
                ctx.violation(key + ":nodef", "mako/codegen.py (%s)" % c, "no def emitted:\n" + s.source)
                continue
            sig = (key, ast.dump(d))
            if sig in seen:
                continue
            seen.add(sig)
            tries = [st for st in d.body if isinstance(st, ast.Try)]
            if not tries:
                ctx.violation(key + ":notry", "mako/codegen.py (%s)" % c, "def body has no try/finally:\n" + s.source)
                continue
            t = tries[-1]
            after = d.body[d.body.index(t) + 1:]
            writes_after = _top_writes(after)
            rets_after = [st for st in after if isinstance(st, ast.Return)]
            rets_in = [st for st in t.body if isinstance(st, ast.Return) and not (isinstance(st.value, ast.Constant) and st.value.value == "" and st is not t.body[-1])]
            # the generator's own return inside try is the last statement of the try body
            own_in = [st for st in t.body[-1:] if isinstance(st, ast.Return)]
            ret_lines = [e for e in _line_event(s, lambda S_: S_.literal().startswith("return ") and "__M_buf.getvalue()" in S_.literal())]
            probs = []
            if f["buffered"] or f["cached"]:
                if writes_after:
                    probs.append("a buffered/cached def writes its content at the call site (%s)" % src(writes_after[0]))
                if not (rets_after and "__M_buf.getvalue()" in src(rets_after[0].value)):
                    probs.append("a buffered/cached def does not return its captured content")
                if own_in:
                    probs.append("returns from inside try before the buffer is popped")
                if ret_lines:
                    tags = " ".join(h[1] for h in ret_lines[0][1].holes())
                    if f["filtered"] and "filter_args" not in tags:
                        probs.append("filter= not applied to the returned content")
                    if f["buffered"] and not f["cached"] and "buffer_filters" not in tags:
                        probs.append("buffer_filters not applied to a buffered def's return value")
                    if not f["filtered"] and "filter_args" in tags:
                        probs.append("filter applied although the def has no filter=")
            elif f["filtered"]:
                if len(writes_after) != 1 or "__M_buf.getvalue()" not in src(writes_after[0]):
                    probs.append("a filtered def must write its filtered content exactly once after the finally (found %d writes)" % len(writes_after))
                if not (rets_after and isinstance(rets_after[-1].value, ast.Constant) and rets_after[-1].value.value == ""):
                    probs.append("a filtered (unbuffered) def must return ''")
                wl = [e for e in _line_event(s, lambda S_: S_.literal().startswith("__M_writer(") and "__M_buf.getvalue()" in S_.literal())]
                if wl and "filter_args" not in " ".join(h[1] for h in wl[0][1].holes()):
                    probs.append("the def's filter= is not applied to the written content")
            else:
                if not (own_in and isinstance(own_in[0].value, ast.Constant) and own_in[0].value.value == ""):
                    probs.append("an unbuffered def must end with return ''")
                if writes_after or rets_after:
                    probs.append("an unbuffered def has code after its finally")
            if probs:
                ctx.violation(key, "mako/codegen.py (%s)" % c, "; ".join(probs) + "\n" + s.source, skeleton=s.source)
            else:
                ctx.ok(key, "mako/codegen.py (%s)" % c, "return convention matches the flags")


@rule("C05.nextcaller", min_instances=6)
def nextcaller(ctx):
    """a call with content arms nextcaller right before try, disarms it in finally, passes the current frame's caller to ccall and exports body first; _push_frame/_pop_frame are inverse"""
    db = ctx.db
    S = sk.get(db)
    rt = S.rt
    push = rt.effect("runtime.CallerStack", "_push_frame")
    pop = rt.effect("runtime.CallerStack", "_pop_frame")
    ctx.check(push.net() == 1 and push.nextcaller == "none", "push_frame.effect", "mako/runtime.py (CallerStack._push_frame)", "_push_frame must push one frame and clear nextcaller (got %r)" % push, repr(push))
    ctx.check(pop.net() == -1 and pop.nextcaller == "popped", "pop_frame.effect", "mako/runtime.py (CallerStack._pop_frame)", "_pop_frame must pop one frame and restore it as nextcaller (got %r)" % pop, repr(pop))
    # the frame pushed is the armed nextcaller (or None) and is returned as the callee's __M_caller
    pf = db.func("runtime.CallerStack._push_frame")
    a = [n for n in walk_func(pf) if isinstance(n, ast.Assign) and "nextcaller" in src(n.value)]
    app = [n for n in walk_func(pf) if isinstance(n, ast.Call) and dotted(n.func) == "self.append"]
    ret = [n for n in walk_func(pf) if isinstance(n, ast.Return)]
    ok = bool(a and app and ret) and src(app[0].args[0]) == src(a[0].targets[0]) == src(ret[0].value)
    ctx.check(ok, "push_frame.value", db.where(pf), "_push_frame does not push and return the armed nextcaller", "pushes and returns self.nextcaller")
    sks = S.build("visitCallTag")
    ctx.require(sks, "no trace for visitCallTag")
    for s in sks:
        if s.tree is None:
            continue
        w = s.tree.body[0]
        where = "mako/codegen.py (visitCallTag)"
        arm = [i for i, st in enumerate(w.body) if isinstance(st, ast.Assign) and src(st.targets[0]) == "context.caller_stack.nextcaller"]
        if not arm:
            ctx.violation("arm", where, "call with content never arms nextcaller:\n" + s.source)
            continue
        i = arm[-1]
        nxt = w.body[i + 1] if i + 1 < len(w.body) else None
        ctx.check(isinstance(nxt, ast.Try) and bool(nxt.finalbody), "arm-then-try", where, "nextcaller is armed but the next statement is not try/finally:\n" + s.source, "armed immediately before try")
        armv = w.body[i].value
        ctx.check(isinstance(armv, ast.Call) and dotted(armv.func) == "runtime.Namespace" and const(armv.args[0]) == "caller", "arm.namespace", where, "nextcaller is not a Namespace named 'caller': %s" % src(armv), "Namespace('caller', ...)")
        kw = {k.arg: k.value for k in armv.keywords} if isinstance(armv, ast.Call) else {}
        cc = kw.get("callables")
        ctx.check(cc is not None and src(cc) == "ccall(__M_caller)", "ccall-current-frame", where, "ccall is given %s, not the current frame's caller (__M_caller)" % (src(cc) if cc is not None else None), "callables=ccall(__M_caller)")
        if isinstance(nxt, ast.Try):
            dis = [st for st in nxt.finalbody if isinstance(st, ast.Assign) and src(st.targets[0]) == "context.caller_stack.nextcaller" and isinstance(st.value, ast.Constant) and st.value.value is None]
            ctx.check(bool(dis) and nxt.finalbody[0] is dis[0], "disarm-first-in-finally", where, "finally does not begin by disarming nextcaller", "finally: nextcaller = None")
            body_calls = [st for st in nxt.body if isinstance(st, ast.Expr) and isinstance(st.value, ast.Call) and dotted(st.value.func) == "__M_writer"]
            ctx.check(len(body_calls) == 1 and len(nxt.body) == 1, "call-in-try", where, "the call expression is not the only statement protected by the try", "try body is the call")
        # ccall: body exported first
        cdef = [st for st in w.body if isinstance(st, ast.FunctionDef) and st.name == "ccall"]
        ctx.check(bool(cdef) and [a_.arg for a_ in cdef[0].args.args] == ["caller"], "ccall.signature", where, "ccall(caller) not emitted", "def ccall(caller)")
        if cdef:
            r = [st for st in cdef[0].body if isinstance(st, ast.Return)]
            bd = [st for st in cdef[0].body if isinstance(st, ast.FunctionDef) and st.name == "body"]
            ctx.check(bool(bd), "ccall.body", where, "no body() def inside ccall", "def body(...)")
            ctx.check(bool(r) and isinstance(r[-1].value, ast.List), "ccall.returns-list", where, "ccall does not return the list of callables", "returns list")
    # export list starts with body (from the generator's AST)
    fn = S.model.methods["visitCallTag"]
    exv = [env_["x"][1].id for _n, env_ in P.find(fn, "'return [%s]' % ','.join($x)") if isinstance(env_["x"][1], ast.Name)]
    ex = [n for n in walk_func(fn) if isinstance(n, ast.Assign) and exv and src(n.targets[0]) == exv[0]]
    exval = ex[0].value if ex else None
    if exval is None:
        direct = [env_["x"][1] for _n, env_ in P.find(fn, "'return [%s]' % ','.join($x)") if isinstance(env_["x"][1], ast.Attribute)]
        exval = direct[0] if direct else None
    if exval is not None and not isinstance(exval, ast.List):
        from .common import field_initial
        exval = field_initial(db, fn, exval) or exval  # the list lives in a visitor object: what its constructor stores
    ctx.check(isinstance(exval, ast.List) and [const(e) for e in exval.elts] == ["body"], "export-body-first", db.where(fn), "body is not the first exported callable", "export = ['body']")
    # the body def sees ccall's `caller`; sibling defs see the frame's caller
    decl = {env_["b"][0] for _n, env_ in P.find(fn, "$b.add_declared('caller')")}
    used = {env_["b"][0] for _n, env_ in P.find(fn, "self.write_variable_declares($b)")}
    ctx.check(bool(decl & used), "body-caller-declared", db.where(fn), "`caller` is not declared for the body of the call", "body_identifiers.add_declared('caller')")


@rule("C05.signature-fields", min_instances=12)
def signature_fields(ctx):
    """ParseFunc reads every ast.arguments field for the parameter kinds of the statement and get_argument_expressions consumes every attribute it stores"""
    db = ctx.db
    fn = db.func("pyparser.ParseFunc.visit_FunctionDef")
    acc = access_paths(fn, {pn(fn, 1): "node"})
    read = {p_[len("node.args."):] for p_ in acc if p_.startswith("node.args.") and "." not in p_[len("node.args."):] and "[" not in p_[len("node.args."):]}
    for f in ("args", "defaults", "vararg", "kwonlyargs", "kw_defaults", "kwarg"):
        ctx.check(f in read, "reads:" + f, db.where(fn), "ParseFunc.visit_FunctionDef never reads node.args.%s: that parameter kind is dropped from def signatures" % f, "reads node.args.%s" % f)
    stored = {n.attr for n in walk_func(fn) if isinstance(n, ast.Attribute) and isinstance(n.ctx, ast.Store) and src(n.value) == "self.listener"}
    g = db.func("ast.FunctionDecl.get_argument_expressions")
    used = {n.attr for g_ in db.with_helpers(g) for n in walk_func(g_) if isinstance(n, ast.Attribute) and src(n.value) == "self"}
    for a in ("argnames", "kwargnames", "defaults", "kwdefaults", "varargs", "kwargs"):
        ctx.check(a in stored, "stores:" + a, db.where(fn), "ParseFunc no longer stores listener.%s" % a, "stores listener.%s" % a)
        ctx.check(a in used, "uses:" + a, db.where(g), "get_argument_expressions never uses self.%s: those parameters vanish from the emitted signature" % a, "uses self.%s" % a)
    # vararg / kwarg names end up in argnames / kwargnames (so they are declared in the def's scope)
    apps = [n for n in walk_func(fn) if isinstance(n, ast.Call) and isinstance(n.func, ast.Attribute) and n.func.attr == "append" and isinstance(n.func.value, ast.Name) and len(n.args) == 1]
    stored_as = {dotted(s.targets[0]): s.value.id for s in walk_func(fn) if isinstance(s, ast.Assign) and isinstance(s.value, ast.Name) and (dotted(s.targets[0]) or "").startswith("self.listener.")}

    def _appended(listattr, field):
        return any(stored_as.get("self.listener." + listattr) == n.func.value.id and any(p_.startswith("node.args." + field) for p_ in access_paths(fn, {pn(fn, 1): "node"}, within=[n.args[0]])) for n in apps)
    ctx.check(_appended("argnames", "vararg") and _appended("kwargnames", "kwarg"), "names-include-star-args", db.where(fn),
              "*args/**kwargs names are not appended to argnames/kwargnames", "vararg and kwarg names recorded")
    # as_call passes keyword-only arguments by name
    kwonly = [n for g_ in db.with_helpers(g) for n in ast.walk(g_) if isinstance(n, ast.If) and src(n.test) == "as_call"]
    ctx.check(any("'%s=%s'" in src(n.body[0]) or '"%s=%s"' in src(n.body[0]) for n in kwonly), "as_call.kwonly-by-name", db.where(g), "keyword-only arguments are not passed by name in as_call mode", "kwonly passed as name=name")


@rule("C05.slurpy-excluded-from-count", min_instances=1, props=["C06", "C19"])
def slurpy_excluded_from_count(ctx):
    """defaults are aligned with the trailing positional parameters: no count of the positional names that is combined with the defaults may include the *args (/**kwargs) name stored at the end of argnames (/kwargnames)"""
    db = ctx.db
    g = db.func("ast.FunctionDecl.get_argument_expressions")
    pairs = (("argnames", "varargs", "defaults"), ("kwargnames", "kwargs", "kwdefaults"))
    fns = db.with_helpers(g)
    nodes = [n for g_ in fns for n in walk_func(g_)]

    def _copy_of(e, attr):
        """is `e` a (reversed) copy / alias of self.<attr> with every element kept?"""
        if dotted(e) == "self." + attr:
            return True
        if isinstance(e, ast.Call) and dotted(e.func) in ("list", "reversed", "tuple") and len(e.args) == 1:
            return _copy_of(e.args[0], attr)
        if isinstance(e, ast.Subscript) and isinstance(e.slice, ast.Slice) and e.slice.lower is None and e.slice.upper is None:
            return _copy_of(e.value, attr)
        return False

    n_judged = 0
    for names, flag, dflt in pairs:
        raw_defs = {}  # local name -> lineno of the assignment that makes it a full copy
        for n in nodes:
            if isinstance(n, ast.Assign) and len(n.targets) == 1 and isinstance(n.targets[0], ast.Name) and _copy_of(n.value, names):
                raw_defs.setdefault(n.targets[0].id, []).append(n.lineno)
        pops = {}  # local name -> linenos where the slurpy name is removed under the flag
        for n in nodes:
            if isinstance(n, ast.Call) and isinstance(n.func, ast.Attribute) and n.func.attr == "pop" and isinstance(n.func.value, ast.Name):
                pops.setdefault(n.func.value.id, []).append(n.lineno)
            if isinstance(n, ast.Delete):
                for t in n.targets:
                    if isinstance(t, ast.Subscript) and isinstance(t.value, ast.Name):
                        pops.setdefault(t.value.id, []).append(n.lineno)
        for n in nodes:
            if not (isinstance(n, ast.Call) and dotted(n.func) == "len" and len(n.args) == 1):
                continue
            x = n.args[0]
            if dotted(x) == "self." + names:
                raw = True
            elif isinstance(x, ast.Name) and x.id in raw_defs:
                d = max([l for l in raw_defs[x.id] if l <= n.lineno] or [0])
                raw = bool(d) and not any(d < l <= n.lineno for l in pops.get(x.id, ()))
            else:
                continue
            st = enclosing_stmt(n)
            # the arithmetic expression the count takes part in
            top = n
            for a in ancestors(n):
                if isinstance(a, (ast.BinOp, ast.Compare, ast.UnaryOp)) or (isinstance(a, ast.Call) and dotted(a.func) in ("max", "min", "range")):
                    top = a
                elif isinstance(a, ast.stmt):
                    break
            text = src(top)
            if dflt not in text.replace("kw" + dflt, "") and not (dflt.startswith("kw") and dflt in text):
                continue
            n_judged += 1
            key = "count:%s:%s" % (names, " ".join(text.split())[:60])
            if raw and ("self." + flag) not in text:
                ctx.violation(key, db.where(st),
                              "`%s` counts the list %s while it still holds the %s name and combines that count with %s: whenever the signature has a %s parameter every default is attached to the parameter after the one it was written for (and the last default is lost)"
                              % (" ".join(text.split())[:80], src(x), "*args" if flag == "varargs" else "**kwargs", dflt, "*args" if flag == "varargs" else "**kwargs"))
            else:
                ctx.ok(key, db.where(st), "count taken after the slurpy name was removed / corrected by self.%s" % flag)
    if not n_judged:
        # the pinned implementation never counts: it pops the slurpy name off the reversed copy before pairing names with defaults
        for names, flag, dflt in pairs:
            consumed = [n for n in nodes if isinstance(n, ast.Call) and isinstance(n.func, ast.Attribute) and n.func.attr == "pop"]
            ctx.check(bool(consumed) or any(isinstance(n, ast.IfExp) and ("self." + flag) in src(n.test) for n in nodes), "nocount:" + names, db.where(g),
                      "neither a count nor a removal of the %s name found" % flag, "names and defaults are paired without counting (slurpy name removed first)")


@rule("C05.def-emitter-siblings", min_instances=4, props=["C17"])
def def_emitter_siblings(ctx):
    """the cache wrapper / def finisher receive the caller's own flags: the wrapper's return convention equals that of the callable it wraps, for both def emitters"""
    db = ctx.db
    S = sk.get(db)
    n = 0
    for c in ("write_render_callable", "write_inline_def", "visitCallTag"):
        fn = S.model.methods[c]
        for tr in S.model.method_traces(c):
            flags = {}
            for k, v in tr.asg.items():
                lk = k.lower()
                if "buffered" in lk:
                    flags["buffered"] = (k, v)
                elif "filter_args" in lk or lk == "filtered":
                    flags["filtered"] = (k, v)
                elif "cached" in lk:
                    flags["cached"] = (k, v)
            for ev in tr.events:
                if ev[0] != "CALL" or ev[1] not in ("write_cache_decorator", "write_def_finish"):
                    continue
                n += 1
                args = ev[2]
                for pname, val in args.items():
                    if pname in flags:
                        key, v = flags[pname]
                        if isinstance(val, emit.Const) and bool(val.v) != v:
                            ctx.violation("%s->%s#%s" % (c, ev[1], pname), db.where(ev[3]),
                                          "%s passes the literal %r as `%s` to %s while its own %s flag (%s) is %s: the wrapper then %s the content although the wrapped callable %s it" % (
                                              c, val.v, pname, ev[1], pname, key, v, "writes" if not val.v else "returns", "returns" if v else "writes"))
                        elif isinstance(val, emit.Atom) and val.key != key and pname in ("buffered", "cached", "filtered"):
                            ctx.violation("%s->%s#%s:other" % (c, ev[1], pname), db.where(ev[3]), "%s passes %s as `%s` instead of its own flag %s" % (c, val.key, pname, key))
                        else:
                            ctx.ok("%s->%s#%s[%s=%d]" % (c, ev[1], pname, pname, v), db.where(ev[3]), "flag forwarded")
    ctx.require(n >= 2, "no write_cache_decorator call events found in the def emitters")
    # wrapper convention per branch (from write_cache_decorator's own skeletons)
    for s in S.build("write_cache_decorator"):
        b = s.trace.asg.get("buffered")
        if s.tree is None or b is None:
            continue
        d = [st for st in s.tree.body[0].body if isinstance(st, ast.FunctionDef)]
        if not d:
            ctx.violation("wrapper[buffered=%d]:nodef" % b, "mako/codegen.py (write_cache_decorator)", "no wrapper def emitted")
            continue
        body = d[0].body
        writes = _top_writes(body)
        rets = [st for st in body if isinstance(st, ast.Return)]
        if b:
            ok = not writes and rets and "_ctx_get_or_create" in src(rets[-1].value)
        else:
            ok = len(writes) == 1 and "_ctx_get_or_create" in src(writes[0]) and rets and isinstance(rets[-1].value, ast.Constant) and rets[-1].value.value == ""
        ctx.check(bool(ok), "wrapper[buffered=%d]" % b, "mako/codegen.py (write_cache_decorator)", "cache wrapper with buffered=%s does not %s:\n%s" % (b, "return the cached value" if b else "write the cached value once and return ''", s.source), "wrapper %s" % ("returns value" if b else "writes once, returns ''"))


@rule("C05.wrapper-forwarding", min_instances=3)
def wrapper_forwarding(ctx):
    """run-time wrappers (decorator adapters, supports_caller) forward the arguments *they* receive: a nested function's *args / **kwargs are used in its body, not shadowed by the enclosing call's"""
    db = ctx.db
    n = 0
    for q, fn in db.functions_in("runtime"):
        if q.count(".") < 2:
            continue  # only nested functions
        parent_q = q.rsplit(".", 1)[0]
        if parent_q not in db.defs or not isinstance(db.defs[parent_q], ast.FunctionDef):
            continue
        a = fn.args
        stars = [x.arg for x in (a.vararg, a.kwarg) if x is not None]
        if not stars:
            continue
        n += 1
        used = {x.id for x in ast.walk(fn) if isinstance(x, ast.Name) and isinstance(x.ctx, ast.Load)}
        unused = [s for s in stars if s not in used]
        # names of the same kind taken from the enclosing scope instead
        outer = db.defs[parent_q]
        outer_stars = [x.arg for x in (outer.args.vararg, outer.args.kwarg) if x is not None]
        leaked = [s for s in outer_stars if s in used and s not in stars]
        ctx.check(not unused and not leaked, "wrapper:" + q.split(".", 1)[1], db.where(fn),
                  "%s receives %s but never uses %s%s: the wrapped callable is invoked with the enclosing call's arguments, so what a decorator passes to the def is silently dropped" % (q, stars, unused, (" and forwards the enclosing %s instead" % leaked) if leaked else ""),
                  "forwards its own %s" % stars)
    ctx.require(n >= 3, "expected >=3 nested wrappers with *args/**kwargs in runtime.py, found %d" % n)


@rule("C05.declares-order", min_instances=1, props=["C08"])
def declares_order(ctx):
    """at the top of a callable, names are fetched from namespaces / the context before nested def closures are defined (their argument defaults and decorators are evaluated at definition time), in an order that does not depend on the hash seed"""
    db = ctx.db
    S = sk.get(db)
    fn = S.model.methods["write_variable_declares"]
    loops = [n for n in walk_func(fn) if isinstance(n, ast.For) and S.model.node_emits(n)]
    # classify what each emitting loop can emit
    found = 0
    order = []
    for lp in loops:
        t = src(lp)
        closures = "self.write_inline_def(" in t or "self.write_def_decl(" in t
        lookups = "context.get(" in t or "context[" in t
        if not (closures or lookups):
            continue
        found += 1
        order.append((lp, closures, lookups))
        if closures and lookups:
            it = lp.iter
            if isinstance(it, ast.Name):
                defs_ = [a_ for a_ in walk_func(fn) if isinstance(a_, ast.Assign) and len(a_.targets) == 1 and isinstance(a_.targets[0], ast.Name) and a_.targets[0].id == it.id]
                if len(defs_) == 1:
                    it = defs_[0].value
            ok = False
            why = "iterates `%s`" % src(it)
            if isinstance(it, ast.Call) and dotted(it.func) == "sorted":
                key = [k.value for k in it.keywords if k.arg == "key"]
                if key and isinstance(key[0], ast.Lambda) and isinstance(key[0].body, ast.Tuple) and key[0].body.elts:
                    first = key[0].body.elts[0]
                    # (name in <table of defs>, name): look-ups (False) sort before closures (True)
                    if isinstance(first, ast.Compare) and isinstance(first.ops[0], ast.In):
                        ok = True
                    elif isinstance(first, ast.Compare) and isinstance(first.ops[0], ast.NotIn):
                        why = "the sort key places closures first"
                elif not key:
                    why = "sorted() without a key interleaves closures and look-ups alphabetically"
            ctx.check(ok, "single-loop", db.where(lp), "one loop emits both context look-ups and nested def closures and %s: a nested def whose default names a context variable that sorts after the def's own name is defined first -> UnboundLocalError" % why, "look-ups sort before closures")
    if found >= 2:
        # separate loops: every look-up loop precedes every closure loop
        first_closure = min([lp.lineno for lp, c, l in order if c] or [10 ** 9])
        last_lookup = max([lp.lineno for lp, c, l in order if l] or [0])
        ctx.check(last_lookup < first_closure or any(c and l for _, c, l in order), "loop-order", db.where(fn), "nested def closures are emitted before the context look-ups", "look-up loop precedes closure loop")
    ctx.require(found >= 1, "write_variable_declares: emitting loop not found")


@rule("C05.attribute-pieces", min_instances=5, props=["C07", "C11", "C20", "C17"])
def attribute_pieces(ctx):
    """an attribute value that mixes text and ${} becomes the `+`-concatenation, in order, of every non-empty piece: expressions parenthesised and unchanged, every other piece (blank ones included) as its repr"""
    db = ctx.db
    from ..engine import rx
    from .c01 import _flags_value
    from ..engine.facts import str_value
    fn = db.func("parsetree.Tag._parse_attributes")
    from .common import regex_of
    # the loop over the pieces: iterates re.split(<pattern capturing ${...}>, <attribute value>)
    loops = []
    for n in ast.walk(fn):
        if isinstance(n, ast.For) and isinstance(n.target, ast.Name) and isinstance(n.iter, ast.Call):
            ro = regex_of(db, n.iter, "parsetree")
            if ro and ro[0] == "split" and ro[1] is not None and "${" in ro[1].replace("\\", ""):
                loops.append((n, ro))
    if len(loops) != 1:
        # the pieces taken apart into separate lists and put together again position by position: a list that was *filtered* on the
        # way no longer lines up with the other one
        for g in db.with_helpers(fn):
            filtered = {}
            for a in walk_func(g):
                if isinstance(a, ast.Assign) and len(a.targets) == 1 and isinstance(a.targets[0], ast.Name) and isinstance(a.value, (ast.ListComp, ast.GeneratorExp)) and any(c_.ifs for c_ in a.value.generators):
                    filtered[a.targets[0].id] = a
                if isinstance(a, ast.Assign) and len(a.targets) == 1 and isinstance(a.targets[0], ast.Name) and isinstance(a.value, ast.Call) and dotted(a.value.func) in ("filter", "list") and a.value.args \
                        and (dotted(a.value.func) == "filter" or (isinstance(a.value.args[0], ast.Call) and dotted(a.value.args[0].func) == "filter")):
                    filtered[a.targets[0].id] = a
            for z in walk_func(g):
                if isinstance(z, ast.Call) and (dotted(z.func) or "").split(".")[-1] in ("zip", "zip_longest") and len(z.args) >= 2:
                    bad = [x.id for x in z.args if isinstance(x, ast.Name) and x.id in filtered]
                    if bad:
                        ctx.violation("pieces.zipped-after-filter", db.where(z),
                                      "the pieces of an attribute value are split into separate lists and recombined position by position (`%s`), but `%s` was filtered first (%s): once an empty piece is dropped the remaining text pieces move one place forward and the attribute's text and ${} values are concatenated in the wrong order"
                                      % (" ".join(src(z).split())[:70], bad[0], " ".join(src(filtered[bad[0]].value).split())[:70]))
                        return
    ctx.require(len(loops) == 1, "_parse_attributes: the loop over the pieces of an expression attribute was not found")
    lp, (_m, pat, fl, subj) = loops[0]
    x = lp.target.id
    # the value that is split is the attribute's value
    vals = {src(subj)} if subj is not None else set()
    if isinstance(subj, ast.Name):
        vals |= {src(s_.value) for s_ in walk_func(fn) if isinstance(s_, ast.Assign) and isinstance(s_.targets[0], ast.Name) and s_.targets[0].id == subj.id}
    # ... or the value variable of a loop over self.attributes.items()
    itemvars = {src(l_.target.elts[1]) for l_ in ast.walk(fn) if isinstance(l_, ast.For) and P.matches(l_.iter, "self.attributes.items()") and isinstance(l_.target, ast.Tuple) and len(l_.target.elts) == 2}
    ctx.check(any(P.matches(ast.parse(v_, mode="eval").body, "self.attributes[$k]") or v_ in itemvars for v_ in vals), "split.subject", db.where(lp), "the pieces are not taken from the attribute's value (%s)" % sorted(vals), "re.split over self.attributes[key]")
    sub = rx.parse(pat, fl)
    items = list(sub)
    ctx.check(len(items) == 1 and items[0][0] == rx.OP.SUBPATTERN and items[0][1][0] == 1, "split.keeps-expressions", db.where(lp), "the split regex %r does not capture the whole ${...}: re.split would drop the expressions" % pat, "whole ${...} captured: split keeps text and expressions in order")
    lits = [(n_, e_) for n_, e_ in P.find(lp, "$e.append(repr(%s))" % x)]
    ctx.check(len(lits) == 1, "literal.repr", db.where(lp), "a text piece is not appended as repr(piece)", "text piece -> repr(piece)")
    # the match object of the expression test
    mvs = {s_.targets[0].id: s_ for s_ in ast.walk(lp) if isinstance(s_, ast.Assign) and isinstance(s_.targets[0], ast.Name) and isinstance(s_.value, ast.Call) and (regex_of(db, s_.value, "parsetree") or (None,))[0] == "match" and src(regex_of(db, s_.value, "parsetree")[3]) == x}
    if lits:
        call = lits[0][0]
        g_ = guards_of(call, lp)
        # kept exactly when it is not an expression piece and not the empty string
        allowed = {(x, True), ("%s != ''" % x, True), ("len(%s)" % x, True), ("len(%s) > 0" % x, True)} | {(m_, False) for m_ in mvs}
        extra = [c_ for c_ in g_ if c_ not in allowed]
        ctx.check(any(c_ in g_ for c_ in [(x, True), ("%s != ''" % x, True), ("len(%s)" % x, True), ("len(%s) > 0" % x, True)]) and not extra, "literal.every-non-empty", db.where(call), "text pieces are kept under %s: pieces other than the empty string (e.g. the blank between two expressions) are dropped from the value" % (extra or g_), "every non-empty text piece kept")
    exprs = [(n_, e_) for m_ in mvs for n_, e_ in P.find(lp, "$e.append('(%%s)' %% %s.group(1))" % m_)]
    ctx.check(len(exprs) == 1, "expression.parenthesised", db.where(lp), "an expression piece is not appended as '(' + expression + ')' unchanged", "expression -> (expression)")
    outs = [e_["e"][0] for _n, e_ in lits + exprs]
    outn = [src(e_["e"][1]) for _n, e_ in lits + exprs]
    joined = [c_ for c_ in walk_func(fn) if isinstance(c_, ast.Call) and P.matches(c_, "' + '.join($e)") and outn and src(c_.args[0]) == outn[0]]
    stored = False
    for c_ in joined:
        st = enclosing_stmt(c_)
        if isinstance(st, ast.Assign):
            if any(P.matches(t_, "self.parsed_attributes[$k]") for t_ in st.targets):
                stored = True
            else:
                # through a local (possibly one element of a tuple assignment)
                names = {n_.id for t_ in st.targets for n_ in ast.walk(t_) if isinstance(n_, ast.Name)}
                stored = any(isinstance(s_, ast.Assign) and any(P.matches(t_, "self.parsed_attributes[$k]") for t_ in s_.targets) and isinstance(s_.value, ast.Name) and s_.value.id in names for s_ in walk_func(fn))
    ctx.check(bool(joined) and len(set(outs)) == 1 and stored, "joined-in-order", db.where(fn), "the pieces are not joined with + in the order they were found and stored as the attribute's expression", "' + '.join(pieces) stored in parsed_attributes")
    # the names every expression piece reads are accumulated (they are what the generated code fetches from the context)
    uses = [n_ for n_ in ast.walk(fn) if isinstance(n_, ast.Attribute) and n_.attr == "undeclared_identifiers" and isinstance(n_.ctx, ast.Load) and not (isinstance(n_.value, ast.Name) and n_.value.id == "self")]
    acc_ok = bool(uses)
    for u_ in uses:
        st_ = enclosing_stmt(u_)
        if isinstance(st_, ast.Assign) and len(st_.targets) == 1 and isinstance(st_.targets[0], ast.Name):
            t_ = st_.targets[0].id
            if P.matches(st_.value, "%s.union($x)" % t_) or P.matches(st_.value, "%s | $x" % t_) or P.matches(st_.value, "$x | %s" % t_) or P.matches(st_.value, "$x.union(%s)" % t_):
                continue
            if st_.value is u_:
                # a plain name for the piece's own set is fine when that name is then accumulated
                loop_ = next((a_ for a_ in ancestors(st_) if isinstance(a_, (ast.For, ast.While))), fn)
                if any(isinstance(c_, ast.Call) and isinstance(c_.func, ast.Attribute) and c_.func.attr in ("update", "union") and any(isinstance(a_, ast.Name) and a_.id == t_ for a_ in c_.args) for c_ in ast.walk(loop_)):
                    continue
            acc_ok = False
        elif isinstance(st_, ast.AugAssign) and isinstance(st_.op, ast.BitOr):
            continue
        elif isinstance(st_, ast.Expr) and isinstance(st_.value, ast.Call) and isinstance(st_.value.func, ast.Attribute) and st_.value.func.attr in ("update", "append", "extend", "add"):
            continue  # added to a collection (a set, or a list of sets that is unioned afterwards)
        else:
            acc_ok = False
    ctx.check(acc_ok, "identifiers-accumulated", db.where(uses[0]) if uses else db.where(lp), "the names read by the expression pieces of one attribute are not accumulated piece by piece (a later piece replaces those of the earlier ones): names used only in an earlier ${...} are not fetched from the context and the attribute raises NameError at render time", "undeclared identifiers of every piece are added to the attribute's set")
    mutators = [c_ for c_ in ast.walk(fn) if isinstance(c_, ast.Call) and isinstance(c_.func, ast.Attribute) and c_.func.attr in ("sort", "reverse", "insert", "pop", "remove") and outs and _dumpname(c_.func.value) == outs[0]]
    ctx.check(not mutators, "no-reorder", db.where(mutators[0]) if mutators else db.where(fn), "the list of pieces is reordered / pruned before it is joined", "pieces untouched between collection and join")


def _dumpname(n):
    from ..engine.pattern import _dump
    return _dump(n)


@rule("C05.nested-def-precedence", min_instances=3, props=["C04"])
def nested_def_precedence(ctx):
    """a def written inside another def shadows a top-level def of the same name where both are visible: the table of callable defs is built with the nested (closure) defs taking precedence"""
    db = ctx.db
    un = db.func("util.SetLikeDict.union")
    oth = pn(un, 1)
    ok = P.has(un, "$x = SetLikeDict(**self)\n$x.update(%s)\nreturn $x" % oth) or P.has(un, "$x = SetLikeDict(self)\n$x.update(%s)\nreturn $x" % oth) or P.has(un, "return SetLikeDict({**self, **%s})" % oth)
    ctx.check(ok, "union.second-wins", db.where(un), "SetLikeDict.union no longer lets the values of its argument take precedence over those of the receiver", "copy of self updated with the argument")
    # wherever the defs of a scope are put together (the `defs` property, or its body where a refactoring moved it)
    unions = [c_ for c_ in ast.walk(db.mod("codegen").tree) if isinstance(c_, ast.Call) and isinstance(c_.func, ast.Attribute) and c_.func.attr in ("union", "update") and len(c_.args) == 1
              and {src(c_.func.value).rsplit(".", 1)[-1], src(c_.args[0]).rsplit(".", 1)[-1]} == {"topleveldefs", "closuredefs"}]
    ors = [b_ for b_ in ast.walk(db.mod("codegen").tree) if isinstance(b_, ast.BinOp) and isinstance(b_.op, ast.BitOr) and {src(b_.left).rsplit(".", 1)[-1], src(b_.right).rsplit(".", 1)[-1]} == {"topleveldefs", "closuredefs"}]
    ctx.require(unions or ors, "codegen: the union of top-level and closure defs was not found (anchor)")
    df = unions[0] if unions else ors[0]
    good_ = all(src(c_.func.value).endswith("topleveldefs") and src(c_.args[0]).endswith("closuredefs") for c_ in unions) and all(src(b_.left).endswith("topleveldefs") for b_ in ors)
    ctx.check(good_, "defs.closure-over-toplevel", db.where(df), "the defs visible in a scope are not `topleveldefs.union(closuredefs)`: a nested def no longer shadows the top-level def of the same name (calling it by name writes the other def's body)", "topleveldefs.union(closuredefs): nested defs win")
    wt = db.func("codegen._GenerateRenderMethod.write_toplevel")
    ctx.check(P.has(wt, "$m.topleveldefs = $mit.union($main.topleveldefs)"), "module.toplevel", db.where(wt), "module-level identifiers do not take over the main body's top-level defs", "module topleveldefs = union with the body's")
