"""Seeded defects and benign twins (see run.py).  Each entry names the rule
expected to fire; `silent` marks behaviour-preserving edits."""

MUTANTS = []


def M(id, prop, expect, *edits):
    MUTANTS.append(dict(id=id, prop=prop, expect=expect, edits=list(edits)))


T = "mako/template.py"
L = "mako/lookup.py"
R = "mako/runtime.py"
CG = "mako/codegen.py"
LX = "mako/lexer.py"
U = "mako/util.py"

# ---------------------------------------------------------------- C09
M("c09-drop-lstrip-template", "C09", "normaliser-agreement", (T, 'self.uri.replace("\\\\", "/").lstrip("/")', 'self.uri.replace("\\\\", "/")'))
M("c09-drop-replace-template", "C09", "normaliser-agreement", (T, 'self.uri.replace("\\\\", "/").lstrip("/")', 'self.uri.lstrip("/")'))
M("c09-drop-replace-lookup", "C09", "normaliser-agreement", (L, 'uri.replace("\\\\", "/"))', 'uri)'))
M("c09-drop-strip-lookup", "C09", "normaliser-agreement", (L, 'u = re.sub(r"^\\/+", "", uri.replace("\\\\", "/"))', 'u = uri.replace("\\\\", "/")'))
M("c09-strip-one-slash-lookup", "C09", "normaliser-agreement", (L, 'r"^\\/+"', 'r"^\\/"'))
M("c09-norm-before-strip", "C09", "normaliser-agreement", (T, 'u_norm = self.uri.replace("\\\\", "/").lstrip("/")\n        u_norm = os.path.normpath(u_norm)', 'u_norm = os.path.normpath(self.uri.replace("\\\\", "/"))\n        u_norm = u_norm.lstrip("/")'))
M("c09-module-path-raw-uri", "C09", "module-path", (T, 'os.path.normpath(module_directory), u_norm + ".py"', 'os.path.normpath(module_directory), self.uri.lstrip("/") + ".py"'))
M("c09-guard-after-compile", "C09", "guard-dominates", (T, '        if u_norm.startswith(".."):\n            raise exceptions.TemplateLookupException(\n                \'Template uri "%s" is invalid - \'\n                "it cannot be relative outside "\n                "of the root path." % self.uri\n            )\n', ''), (T, '        self.module = module\n        self.filename = filename\n        self.callable_ = self.module.render_body\n        self.format_exceptions', '        self.module = module\n        if u_norm.startswith(".."):\n            raise exceptions.TemplateLookupException("x")\n        self.filename = filename\n        self.callable_ = self.module.render_body\n        self.format_exceptions'))
M("c09-guard-warn-only", "C09", "guard", (T, '            raise exceptions.TemplateLookupException(\n                \'Template uri "%s" is invalid - \'', '            warnings.warn(\n                \'Template uri "%s" is invalid - \''))
M("c09-load-normalised-uri", "C09", "same-uri", (L, "return self._load(srcfile, uri)", "return self._load(srcfile, u)"))
M("c09-runtime-reads-file", "C09", "who-may-open", (R, "    template = _lookup_template(context, uri, calling_uri)\n    callable_, ctx", "    open(uri).close()\n    template = _lookup_template(context, uri, calling_uri)\n    callable_, ctx"))
M("c09-benign-rename", "C09", "silent", (T, 'u_norm = self.uri.replace("\\\\", "/").lstrip("/")\n        u_norm = os.path.normpath(u_norm)\n        if u_norm.startswith(".."):', 'unorm = self.uri.replace("\\\\", "/").lstrip("/")\n        unorm = os.path.normpath(unorm)\n        u_norm = unorm\n        if unorm.startswith(".."):'))
M("c09-benign-lstrip-in-lookup", "C09", "silent", (L, 'u = re.sub(r"^\\/+", "", uri.replace("\\\\", "/"))', 'u = uri.replace("\\\\", "/").lstrip("/")'))

# ---------------------------------------------------------------- C14
M("c14-freshness-flip", "C14", "freshness-polarity", (L, "template.module._modified_time >= template_stat[stat.ST_MTIME]", "template.module._modified_time <= template_stat[stat.ST_MTIME]"))
M("c14-no-evict-before-reload", "C14", "freshness-polarity", (L, "                return template\n            self._collection.pop(uri, None)\n            return self._load", "                return template\n            return self._load"))
M("c14-cleanup-swallow", "C14", "failure-cleanup", (L, "                self._collection.pop(uri, None)\n                raise\n", "                self._collection.pop(uri, None)\n                return None\n"))
M("c14-cleanup-removed", "C14", "failure-cleanup", (L, "                self._collection.pop(uri, None)\n                raise\n", "                raise\n"))
M("c14-check-always", "C14", "freshness-polarity", (L, "            if self.filesystem_checks:\n                return self._check(uri, self._collection[uri])\n            else:\n                return self._collection[uri]", "            return self._check(uri, self._collection[uri])"))
M("c14-reversed-dirs", "C14", "search-order", (L, "for dir_ in self.directories:\n                # make sure", "for dir_ in reversed(self.directories):\n                # make sure"))
M("c14-lru-skip-manage", "C14", "lru", (U, "        else:\n            item.value = value\n        self._manage_size()", "            self._manage_size()\n        else:\n            item.value = value"))
M("c14-lru-evict-newest", "C14", "lru", (U, 'key=operator.attrgetter("timestamp"),\n                reverse=True,', 'key=operator.attrgetter("timestamp"),\n                reverse=False,'))
M("c14-lru-threshold", "C14", "lru", (U, "def __init__(self, capacity, threshold=0.5):", "def __init__(self, capacity, threshold=1.5):"))
M("c14-lru-no-stamp", "C14", "lru", (U, "        item.timestamp = timeit.default_timer()\n        return item.value", "        return item.value"))
M("c14-oserror-no-evict", "C14", "failure-cleanup", (L, "        except OSError as e:\n            self._collection.pop(uri, None)\n", "        except OSError as e:\n"))
M("c14-benign-gt", "C14", "silent", (L, "template.module._modified_time >= template_stat[stat.ST_MTIME]", "template_stat[stat.ST_MTIME] <= template.module._modified_time"))

# ---------------------------------------------------------------- C16
M("c16-release-not-finally", "C16", "lock-pairing", (L, "        finally:\n            self._mutex.release()", "        except KeyError:\n            pass\n        self._mutex.release()"))
M("c16-no-second-read", "C16", "double-check", (L, "            try:\n                # try returning from collection one\n                # more time in case concurrent thread already loaded\n                return self._collection[uri]\n            except KeyError:\n                pass\n", ""))
M("c16-reentry", "C16", "no-reentry", (L, "                    module_filename = None\n", "                    module_filename = None\n                    self.has_template(uri)\n"))
M("c16-lru-del-unprotected", "C16", "lru-tolerance", (U, "                try:\n                    del self[item.key]\n                except KeyError:\n                    # if we couldn't find a key, most likely some other thread\n                    # broke in on us. loop around and try again\n                    break", "                del self[item.key]"))
M("c16-render-stores-template", "C16", "render-isolation", (R, "    context._outputting_as_unicode = as_unicode\n", "    context._outputting_as_unicode = as_unicode\n    template._last_context = context\n"))

# ---------------------------------------------------------------- C15
M("c15-direct-write", "C15", "atomic-publish", (T, "        dest, name = tempfile.mkstemp(dir=os.path.dirname(outputpath))\n\n        os.write(dest, source)\n        os.close(dest)\n        shutil.move(name, outputpath)", "        with open(outputpath, 'wb') as f:\n            f.write(source)"))
M("c15-tmp-in-default-dir", "C15", "atomic-publish", (T, "tempfile.mkstemp(dir=os.path.dirname(outputpath))", "tempfile.mkstemp()"))
M("c15-move-before-close", "C15", "atomic-publish", (T, "        os.close(dest)\n        shutil.move(name, outputpath)", "        shutil.move(name, outputpath)\n        os.close(dest)"))
M("c15-move-before-write", "C15", "atomic-publish", (T, "        os.write(dest, source)\n        os.close(dest)\n        shutil.move(name, outputpath)", "        shutil.move(name, outputpath)\n        os.write(dest, source)\n        os.close(dest)"))
M("c15-stale-polarity", "C15", "staleness", (T, "or os.stat(path)[stat.ST_MTIME] < filemtime", "or os.stat(path)[stat.ST_MTIME] > filemtime"))
M("c15-no-reload-after-magic", "C15", "staleness", (T, "                            self, data, filename, path, self.module_writer\n                        )\n                    module = compat.load_module(self.module_id, path)\n", "                            self, data, filename, path, self.module_writer\n                        )\n"))
M("c15-magic-dropped", "C15", "staleness", (T, "if module._magic_number != codegen.MAGIC_NUMBER:", "if False:"))
M("c15-writer-gets-str", "C15", "writer-contract", (T, "    if isinstance(source, str):\n        source = source.encode(lexer.encoding or \"ascii\")\n\n    if module_writer:", "    if module_writer:"))
M("c15-writer-and-default", "C15", "writer-contract", (T, "    if module_writer:\n        module_writer(source, outputpath)\n    else:\n", "    if module_writer:\n        module_writer(source, outputpath)\n    if True:\n"))
M("c15-lookup-writes", "C15", "who-may-write", (L, "        self._collection[uri] = template\n", "        self._collection[uri] = template\n        open('/tmp/x', 'w').write(uri)\n"))
M("c15-verify-unbounded", "C15", "verify-directory", (U, "            if tries > 5:\n                raise", "            pass"))
M("c15-benign-os-replace", "C15", "silent", (T, "shutil.move(name, outputpath)", "os.replace(name, outputpath)"))
M("c16-check-then-act", "C16", "check-then-act", (L, "        try:\n            return self._uri_cache[key]\n        except KeyError:\n            pass", "        if key in self._uri_cache:\n            return self._uri_cache[key]"))
M("c16-benign-with-lock", "C16", "silent", (L, "        self._mutex.acquire()\n        try:\n            try:\n                # try returning", "        self._mutex.acquire()\n        try:\n            try:\n                # (comment changed) try returning"))
