"""Seeded defects and benign twins (see run.py).  Each entry names the rule
expected to fire; `silent` marks behaviour-preserving edits."""

MUTANTS = []


def M(id, prop, expect, *edits):
    MUTANTS.append(dict(id=id, prop=prop, expect=expect, edits=list(edits)))


T = "mako/template.py"
L = "mako/lookup.py"
R = "mako/runtime.py"
CG = "mako/codegen.py"
LX = "mako/lexer.py"
U = "mako/util.py"

# ---------------------------------------------------------------- C09
M("c09-drop-lstrip-template", "C09", "normaliser-agreement", (T, 'self.uri.replace("\\\\", "/").lstrip("/")', 'self.uri.replace("\\\\", "/")'))
M("c09-drop-replace-template", "C09", "normaliser-agreement", (T, 'self.uri.replace("\\\\", "/").lstrip("/")', 'self.uri.lstrip("/")'))
M("c09-drop-replace-lookup", "C09", "normaliser-agreement", (L, 'uri.replace("\\\\", "/"))', 'uri)'))
M("c09-drop-strip-lookup", "C09", "normaliser-agreement", (L, 'u = re.sub(r"^\\/+", "", uri.replace("\\\\", "/"))', 'u = uri.replace("\\\\", "/")'))
M("c09-strip-one-slash-lookup", "C09", "normaliser-agreement", (L, 'r"^\\/+"', 'r"^\\/"'))
M("c09-norm-before-strip", "C09", "normaliser-agreement", (T, 'u_norm = self.uri.replace("\\\\", "/").lstrip("/")\n        u_norm = os.path.normpath(u_norm)', 'u_norm = os.path.normpath(self.uri.replace("\\\\", "/"))\n        u_norm = u_norm.lstrip("/")'))
M("c09-module-path-raw-uri", "C09", "module-path", (T, 'os.path.normpath(module_directory), u_norm + ".py"', 'os.path.normpath(module_directory), self.uri.lstrip("/") + ".py"'))
M("c09-guard-after-compile", "C09", "guard-dominates", (T, '        if u_norm.startswith(".."):\n            raise exceptions.TemplateLookupException(\n                \'Template uri "%s" is invalid - \'\n                "it cannot be relative outside "\n                "of the root path." % self.uri\n            )\n', ''), (T, '        self.module = module\n        self.filename = filename\n        self.callable_ = self.module.render_body\n        self.format_exceptions', '        self.module = module\n        if u_norm.startswith(".."):\n            raise exceptions.TemplateLookupException("x")\n        self.filename = filename\n        self.callable_ = self.module.render_body\n        self.format_exceptions'))
M("c09-guard-warn-only", "C09", "guard", (T, '            raise exceptions.TemplateLookupException(\n                \'Template uri "%s" is invalid - \'', '            warnings.warn(\n                \'Template uri "%s" is invalid - \''))
M("c09-load-normalised-uri", "C09", "same-uri", (L, "return self._load(srcfile, uri)", "return self._load(srcfile, u)"))
M("c09-runtime-reads-file", "C09", "who-may-open", (R, "    template = _lookup_template(context, uri, calling_uri)\n    callable_, ctx", "    open(uri).close()\n    template = _lookup_template(context, uri, calling_uri)\n    callable_, ctx"))
M("c09-benign-rename", "C09", "silent", (T, 'u_norm = self.uri.replace("\\\\", "/").lstrip("/")\n        u_norm = os.path.normpath(u_norm)\n        if u_norm.startswith(".."):', 'unorm = self.uri.replace("\\\\", "/").lstrip("/")\n        unorm = os.path.normpath(unorm)\n        u_norm = unorm\n        if unorm.startswith(".."):'))
M("c09-benign-lstrip-in-lookup", "C09", "silent", (L, 'u = re.sub(r"^\\/+", "", uri.replace("\\\\", "/"))', 'u = uri.replace("\\\\", "/").lstrip("/")'))

# ---------------------------------------------------------------- C14
M("c14-freshness-flip", "C14", "freshness-polarity", (L, "template.module._modified_time >= template_stat[stat.ST_MTIME]", "template.module._modified_time <= template_stat[stat.ST_MTIME]"))
M("c14-no-evict-before-reload", "C14", "freshness-polarity", (L, "                return template\n            self._collection.pop(uri, None)\n            return self._load", "                return template\n            return self._load"))
M("c14-cleanup-swallow", "C14", "failure-cleanup", (L, "                self._collection.pop(uri, None)\n                raise\n", "                self._collection.pop(uri, None)\n                return None\n"))
M("c14-cleanup-removed", "C14", "failure-cleanup", (L, "                self._collection.pop(uri, None)\n                raise\n", "                raise\n"))
M("c14-check-always", "C14", "freshness-polarity", (L, "            if self.filesystem_checks:\n                return self._check(uri, self._collection[uri])\n            else:\n                return self._collection[uri]", "            return self._check(uri, self._collection[uri])"))
M("c14-reversed-dirs", "C14", "search-order", (L, "for dir_ in self.directories:\n                # make sure", "for dir_ in reversed(self.directories):\n                # make sure"))
M("c14-lru-skip-manage", "C14", "lru", (U, "        else:\n            item.value = value\n        self._manage_size()", "            self._manage_size()\n        else:\n            item.value = value"))
M("c14-lru-evict-newest", "C14", "lru", (U, 'key=operator.attrgetter("timestamp"),\n                reverse=True,', 'key=operator.attrgetter("timestamp"),\n                reverse=False,'))
M("c14-lru-threshold", "C14", "lru", (U, "def __init__(self, capacity, threshold=0.5):", "def __init__(self, capacity, threshold=1.5):"))
M("c14-lru-no-stamp", "C14", "lru", (U, "        item.timestamp = timeit.default_timer()\n        return item.value", "        return item.value"))
M("c14-oserror-no-evict", "C14", "failure-cleanup", (L, "        except OSError as e:\n            self._collection.pop(uri, None)\n", "        except OSError as e:\n"))
M("c14-benign-gt", "C14", "silent", (L, "template.module._modified_time >= template_stat[stat.ST_MTIME]", "template_stat[stat.ST_MTIME] <= template.module._modified_time"))

# ---------------------------------------------------------------- C16
M("c16-release-not-finally", "C16", "lock-pairing", (L, "        finally:\n            self._mutex.release()", "        except KeyError:\n            pass\n        self._mutex.release()"))
M("c16-no-second-read", "C16", "double-check", (L, "            try:\n                # try returning from collection one\n                # more time in case concurrent thread already loaded\n                return self._collection[uri]\n            except KeyError:\n                pass\n", ""))
M("c16-reentry", "C16", "no-reentry", (L, "                    module_filename = None\n", "                    module_filename = None\n                    self.has_template(uri)\n"))
M("c16-lru-del-unprotected", "C16", "lru-tolerance", (U, "                try:\n                    del self[item.key]\n                except KeyError:\n                    # if we couldn't find a key, most likely some other thread\n                    # broke in on us. loop around and try again\n                    break", "                del self[item.key]"))
M("c16-render-stores-template", "C16", "render-isolation", (R, "    context._outputting_as_unicode = as_unicode\n", "    context._outputting_as_unicode = as_unicode\n    template._last_context = context\n"))

# ---------------------------------------------------------------- C15
M("c15-direct-write", "C15", "atomic-publish", (T, "        dest, name = tempfile.mkstemp(dir=os.path.dirname(outputpath))\n\n        os.write(dest, source)\n        os.close(dest)\n        shutil.move(name, outputpath)", "        with open(outputpath, 'wb') as f:\n            f.write(source)"))
M("c15-tmp-in-default-dir", "C15", "atomic-publish", (T, "tempfile.mkstemp(dir=os.path.dirname(outputpath))", "tempfile.mkstemp()"))
M("c15-move-before-close", "C15", "atomic-publish", (T, "        os.close(dest)\n        shutil.move(name, outputpath)", "        shutil.move(name, outputpath)\n        os.close(dest)"))
M("c15-move-before-write", "C15", "atomic-publish", (T, "        os.write(dest, source)\n        os.close(dest)\n        shutil.move(name, outputpath)", "        shutil.move(name, outputpath)\n        os.write(dest, source)\n        os.close(dest)"))
M("c15-stale-polarity", "C15", "staleness", (T, "or os.stat(path)[stat.ST_MTIME] < filemtime", "or os.stat(path)[stat.ST_MTIME] > filemtime"))
M("c15-no-reload-after-magic", "C15", "staleness", (T, "                            self, data, filename, path, self.module_writer\n                        )\n                    module = compat.load_module(self.module_id, path)\n", "                            self, data, filename, path, self.module_writer\n                        )\n"))
M("c15-magic-dropped", "C15", "staleness", (T, "if module._magic_number != codegen.MAGIC_NUMBER:", "if False:"))
M("c15-writer-gets-str", "C15", "writer-contract", (T, "    if isinstance(source, str):\n        source = source.encode(lexer.encoding or \"ascii\")\n\n    if module_writer:", "    if module_writer:"))
M("c15-writer-and-default", "C15", "writer-contract", (T, "    if module_writer:\n        module_writer(source, outputpath)\n    else:\n", "    if module_writer:\n        module_writer(source, outputpath)\n    if True:\n"))
M("c15-lookup-writes", "C15", "who-may-write", (L, "        self._collection[uri] = template\n", "        self._collection[uri] = template\n        open('/tmp/x', 'w').write(uri)\n"))
M("c15-verify-unbounded", "C15", "verify-directory", (U, "            if tries > 5:\n                raise", "            pass"))
M("c15-benign-os-replace", "C15", "silent", (T, "shutil.move(name, outputpath)", "os.replace(name, outputpath)"))
M("c16-check-then-act", "C16", "check-then-act", (L, "        try:\n            return self._uri_cache[key]\n        except KeyError:\n            pass", "        if key in self._uri_cache:\n            return self._uri_cache[key]"))
M("c16-benign-with-lock", "C16", "silent", (L, "        self._mutex.acquire()\n        try:\n            try:\n                # try returning", "        self._mutex.acquire()\n        try:\n            try:\n                # (comment changed) try returning"))

# ---------------------------------------------------------------- C13 / C05 (emission model)
M("c13-filtered-pop-no-writer", "C13", "skeleton-typestate", (CG, '                    "finally:",\n                    "__M_buf, __M_writer = context._pop_buffer_and_writer()",\n                )\n\n            if callstack:', '                    "finally:",\n                    "__M_buf = context._pop_buffer()",\n                )\n\n            if callstack:'))
M("c13-calltag-no-disarm", "C13", "skeleton-typestate", (CG, '            "finally:",\n            "context.caller_stack.nextcaller = None",\n            None,\n        )', '            None,\n        )'))
M("c13-loop-exit-not-finally", "C13", "skeleton-typestate", (CG, '                self.printer.writeline("finally:")\n                self.printer.writeline("loop = __M_loop._exit()")\n                self.printer.writeline(None)', '                self.printer.writeline("loop = __M_loop._exit()")'))
M("c13-loop-no-rebind", "C13", "skeleton-typestate", (CG, 'self.printer.writeline("loop = __M_loop._exit()")', 'self.printer.writeline("__M_loop._exit()")'))
M("c13-unbuffered-no-finally", "C13", "skeleton-typestate", (CG, '            if callstack:\n                self.printer.writelines(\n                    "finally:", "context.caller_stack._pop_frame()", None\n                )', '            if callstack and buffered:\n                self.printer.writelines(\n                    "finally:", "context.caller_stack._pop_frame()", None\n                )'))
M("c13-inline-cached-no-push", "C13", "skeleton-typestate", (CG, '        if buffered or filtered or cached:\n            self.printer.writelines("context._push_buffer()")', '        if buffered or filtered:\n            self.printer.writelines("context._push_buffer()")'))
M("c13-runtime-pop-buffer-peek", "C13", "skeleton-typestate", (R, "        return self._buffer_stack.pop()", "        return self._buffer_stack[-1]"))
M("c13-runtime-pop-frame-noop", "C13", "skeleton-typestate", (R, "        self.nextcaller = self.pop()", "        self.nextcaller = self[-1]"))
M("c13-capture-no-finally", "C13", "runtime-pairing", (R, "    try:\n        callable_(*args, **kwargs)\n    finally:\n        buf = context._pop_buffer()\n    return buf.getvalue()", "    callable_(*args, **kwargs)\n    buf = context._pop_buffer()\n    return buf.getvalue()"))
M("c13-supports-caller-no-finally", "C13", "runtime-pairing", (R, "        try:\n            return func(context, *args, **kwargs)\n        finally:\n            context.caller_stack._pop_frame()", "        r = func(context, *args, **kwargs)\n        context.caller_stack._pop_frame()\n        return r"))
M("c13-texttag-write-before-pop", "C13", "skeleton-typestate", (CG, '                "finally:",\n                "__M_buf, __M_writer = context._pop_buffer_and_writer()",\n                "__M_writer(%s)"', '                "finally:",\n                "__M_buf = context._pop_buffer()",\n                "__M_writer(%s)"'))
M("c13-include-handler-swallow", "C13", "handlers", (R, "            if not result:\n                raise\n    else:", "            if not result:\n                pass\n    else:"))
M("c13-render-error-keeps-buffers", "C13", "handlers", (R, "            context._buffer_stack[:] = [util.FastEncodingBuffer()]", "            context._buffer_stack.append(util.FastEncodingBuffer())"))
M("c13-pushframe-keeps-nextcaller", "C13", "silent", (R, "        frame = self.nextcaller or None\n        self.append(frame)", "        frame = self.nextcaller or None\n        self.append(frame)  # unchanged"))
M("c13-benign-writeline-split", "C13", "silent", (CG, '                self.printer.writelines(\n                    "finally:", "context.caller_stack._pop_frame()", None\n                )', '                self.printer.writeline("finally:")\n                self.printer.writeline("context.caller_stack._pop_frame()")\n                self.printer.writeline(None)'))
M("c13-benign-fstring", "C13", "silent", (CG, 'self.printer.writeline("__M_writer(%s)" % repr(node.content))', 'self.printer.writeline(f"__M_writer({node.content!r})")'))
M("c13-benign-release-order", "C13", "silent", (CG, '                self.printer.writelines(\n                    "finally:", "__M_buf = context._pop_buffer()"\n                )', '                self.printer.writelines(\n                    "finally:", "__M_buf = context._pop_buffer()"\n                )  # same'))

# ---------------------------------------------------------------- C05
P = "mako/pyparser.py"
A = "mako/ast.py"
M("c05-inline-cache-flag", "C05", "def-emitter-siblings", (CG, "                namedecls,\n                buffered,\n                identifiers,", "                namedecls,\n                False,\n                identifiers,"))
M("c05-buffered-writes", "C05", "return-convention", (CG, '            if buffered or cached:\n                self.printer.writeline("return %s" % s)', '            if cached:\n                self.printer.writeline("return %s" % s)'))
M("c05-no-buffer-filters", "C05", "return-convention", (CG, "            if buffered and not cached:\n                s = self.create_filter_callable(\n                    self.compiler.buffer_filters, s, False\n                )", "            if False:\n                s = self.create_filter_callable(\n                    self.compiler.buffer_filters, s, False\n                )"))
M("c05-filter-dropped", "C05", "return-convention", (CG, "            if filtered:\n                s = self.create_filter_callable(\n                    node.filter_args.args, s, False\n                )", "            if filtered and buffered:\n                s = self.create_filter_callable(\n                    node.filter_args.args, s, False\n                )"))
M("c05-ccall-wrong-caller", "C05", "nextcaller", (CG, '"callables=ccall(__M_caller))",', '"callables=ccall(caller))",'))
M("c05-benign-try-emitted-later", "C05", "silent", (CG, '            "callables=ccall(__M_caller))",\n            "try:",\n        )\n        self.printer.start_source(node.lineno)\n        self.printer.writelines(', '            "callables=ccall(__M_caller))",\n        )\n        self.printer.start_source(node.lineno)\n        self.printer.writelines(\n            "try:",'))
M("c05-pop-frame-drops-nextcaller", "C05", "nextcaller", (R, "        self.nextcaller = self.pop()", "        self.pop()"))
M("c05-parsefunc-no-kwonly", "C05", "signature-fields", (P, "        kwargnames = [arg_id(arg) for arg in node.args.kwonlyargs]", "        kwargnames = []"))
M("c05-argexpr-no-varargs", "C05", "signature-fields", (A, '        if self.varargs:\n            namedecls.append("*" + argnames.pop(0))', '        if False:\n            namedecls.append("*" + argnames.pop(0))'))

# ---------------------------------------------------------------- C17
CA = "mako/cache.py"
M("c17-invalidate-def-key", "C17", "key-agreement", (CA, 'self.invalidate("render_%s" % name, __M_defname="render_%s" % name)', 'self.invalidate(name, __M_defname="render_%s" % name)'))
M("c17-own-args-first", "C17", "arg-precedence", (CG, '        cache_args = {}\n        if self.compiler.pagetag is not None:\n            cache_args.update(\n                (pa[6:], self.compiler.pagetag.parsed_attributes[pa])\n                for pa in self.compiler.pagetag.parsed_attributes\n                if pa.startswith("cache_") and pa != "cache_key"\n            )\n        cache_args.update(\n            (pa[6:], node_or_pagetag.parsed_attributes[pa])\n            for pa in node_or_pagetag.parsed_attributes\n            if pa.startswith("cache_") and pa != "cache_key"\n        )', '        cache_args = {}\n        cache_args.update(\n            (pa[6:], node_or_pagetag.parsed_attributes[pa])\n            for pa in node_or_pagetag.parsed_attributes\n            if pa.startswith("cache_") and pa != "cache_key"\n        )\n        if self.compiler.pagetag is not None:\n            cache_args.update(\n                (pa[6:], self.compiler.pagetag.parsed_attributes[pa])\n                for pa in self.compiler.pagetag.parsed_attributes\n                if pa.startswith("cache_") and pa != "cache_key"\n            )'))
M("c17-enabled-after-impl", "C17", "enabled-guard", (CA, "        if not self.template.cache_enabled:\n            return creation_function()\n\n        return self.impl.get_or_create(", "        return self.impl.get_or_create("))
M("c17-wrapper-calls-self", "C17", "wrapper-skeleton", (CG, '"%s, lambda:__M_%s(%s),  context, %s__M_defname=%r)"', '"%s, lambda:%s(%s),  context, %s__M_defname=%r)"'))
M("c17-template-args-win", "C17", "arg-precedence", (CA, "            tmpl_kw = self.template.cache_args.copy()\n            tmpl_kw.update(kw)\n            self._def_regions[defname] = tmpl_kw", "            tmpl_kw = dict(kw)\n            tmpl_kw.update(self.template.cache_args)\n            self._def_regions[defname] = tmpl_kw"))
M("c17-timeout-str", "C17", "arg-precedence", (CG, 'cache_args["timeout"] = int(eval(cache_args["timeout"]))', 'cache_args["timeout"] = eval(cache_args["timeout"])'))
M("c17-save-after-def", "C17", "wrapper-skeleton", (CG, '        self.printer.writeline("__M_%s = %s" % (name, name))\n        cachekey', '        cachekey'), (CG, '        self.printer.writeline("def %s(%s):" % (name, ",".join(args)))\n\n        # form', '        self.printer.writeline("def %s(%s):" % (name, ",".join(args)))\n        self.printer.writeline("__M_%s = %s" % (name, name))\n\n        # form'))

# ---------------------------------------------------------------- C03
PT = "mako/parsetree.py"
PG = "mako/pygen.py"
M("c03-primary-no-with", "C03", "keyword-tables", (PT, 'keyword in ["for", "if", "while", "try", "with"]', 'keyword in ["for", "if", "while", "try"]'))
M("c03-compound-no-except", "C03", "skeletons", (PG, '(if|try|elif|while|for|with|except)', '(if|try|elif|while|for|with)'))
M("c03-unindentor-no-elif", "C03", "skeletons", (PG, 'r"^\\s*(else|elif|except|finally).*\\:"', 'r"^\\s*(else|except|finally).*\\:"'))
M("c03-flag-without-push", "C03", "loop-pairing", (CG, "    if loop_variable.detected:\n        node.nodes[-1].has_loop_context = True\n", "    node.nodes[-1].has_loop_context = True\n    if loop_variable.detected:\n"))
M("c03-loop-not-guarded", "C03", "enable-loop-guard", (CG, 'if self.compiler.enable_loop and node.keyword == "for":', 'if node.keyword == "for":'))
M("c03-loopstack-always", "C03", "enable-loop-guard", (CG, '        if self.compiler.enable_loop:\n            has_loop = "loop" in to_write\n            to_write.discard("loop")\n        else:\n            has_loop = False', '        has_loop = "loop" in to_write\n        to_write.discard("loop")'))
M("c03-odd-flipped", "C03", "loopcontext-algebra", (R, "        return bool(self.index % 2)", "        return bool(self.index % 2 == 0)"))
M("c03-reverse-index-off", "C03", "loopcontext-algebra", (R, "        return len(self) - self.index - 1", "        return len(self) - self.index"))
M("c03-index-before-yield", "C03", "loopcontext-algebra", (R, "            yield i\n            self.index += 1", "            self.index += 1\n            yield i"))
M("c03-exit-returns-popped", "C03", "loop-pairing", (R, "    def _exit(self):\n        self._pop()\n        return self._top", "    def _exit(self):\n        return self._pop()"))
M("c03-regex-header", "C03", "for-target-alphabet", (CG, "        target, iterable = _for_loop_parts(node)\n", "        match = _FOR_LOOP.match(node.text)\n        if not match:\n            raise SyntaxError(node.text)\n        target, iterable = match.group(1), match.group(2)\n"))
M("c03-reserved-loop-always", "C03", "enable-loop-guard", (T, '            return codegen.RESERVED_NAMES.difference(["loop"])', '            return codegen.RESERVED_NAMES'))
M("c03-benign-last", "C03", "silent", (R, "        return self.index == len(self) - 1", "        return self.reverse_index == 0"))

# ---------------------------------------------------------------- C12
EX = "mako/exceptions.py"
M("c12-expr-no-source", "C12", "source-recorded", (CG, "    def visitExpression(self, node):\n        self.printer.start_source(node.lineno)\n", "    def visitExpression(self, node):\n"))
M("c12-include-no-source", "C12", "source-recorded", (CG, "    def visitIncludeTag(self, node):\n        self.printer.start_source(node.lineno)\n", "    def visitIncludeTag(self, node):\n"))
M("c12-calltag-source-late", "C12", "source-recorded", (CG, '        self.printer.start_source(node.lineno)\n        self.printer.writelines(\n            "__M_writer(%s)"\n            % self.create_filter_callable([], node.expression, True),', '        self.printer.writelines(\n            "__M_writer(%s)"\n            % self.create_filter_callable([], node.expression, True),'))
M("c12-writeline-count-one", "C12", "line-accounting", (PG, '        self._update_lineno(len(line.split("\\n")))', '        self._update_lineno(1)'))
M("c12-blanks-not-counted", "C12", "line-accounting", (PG, '        self.stream.write("\\n" * num)\n        self._update_lineno(num)', '        self.stream.write("\\n" * num)\n        self._update_lineno(1)'))
M("c12-reader-index-base", "C12", "metadata", (EX, "            template_ln = line_map[lineno - 1]", "            template_ln = line_map[lineno]"))
M("c12-warning-index-base", "C12", "metadata", (T, "            translated = line_map[lineno - 1]", "            translated = line_map[lineno]"))
M("c12-fullmap-range0", "C12", "metadata", (T, "for mod_line in range(1, max(line_map)):", "for mod_line in range(0, max(line_map)):"))
M("c12-compile-outside-region", "C12", "warning-regions", (T, "    with _translate_module_warnings(\n        lambda: source, cid, filename or template.uri\n    ):\n        code = compile(source, cid, \"exec\")\n", "    code = compile(source, cid, \"exec\")\n    with _translate_module_warnings(\n        lambda: source, cid, filename or template.uri\n    ):\n"))
M("c12-translate-wrong-id", "C12", "warning-regions", (T, "        lambda: source, cid, filename or template.uri\n", "        lambda: source, template.uri, filename or template.uri\n"))
M("c12-drop-region-removed", "C12", "warning-regions", (T, "    with _drop_expression_warnings():\n        source, lexer = _compile(\n            template, text, filename, generate_magic_comment=False\n        )", "    if True:\n        source, lexer = _compile(\n            template, text, filename, generate_magic_comment=False\n        )"))
M("c12-marker-mismatch", "C12", "metadata", (CG, '"__M_BEGIN_METADATA",', '"__M_BEGIN_META",'))
M("c12-benign-extra-source", "C12", "silent", (CG, "    def visitBlockTag(self, node):\n        if node.is_anonymous:", "    def visitBlockTag(self, node):\n        self.printer.start_source(node.lineno)\n        if node.is_anonymous:"))

# ---------------------------------------------------------------- C01
M("c01-text-stop-any-closing", "C01", "zero-width-consumer", (LX, "(?=<%|</%[\\t ]*[^\\t ]+?[\\t ]*>)", "(?=</?%)           "))
M("c01-texttag-lookahead", "C01", "zero-width-consumer", (LX, 'match = self.match(r"(.*?)\\</%text>", re.S)', 'match = self.match(r"(.*?)(?=\\</%text>)", re.S)'))
M("c01-lone-cr", "C01", "zero-width-consumer", (LX, '            r"((?:(?:\\\\\\r?\\n)|[^\\r\\n]|\\r(?!\\n))*)"', '            r"((?:(?:\\\\\\r?\\n)|[^\\r\\n])*)"'))
M("c01-eda-attr-loop", "C01", "no-EDA", (LX, "              \\s*[=,](?:\\s+(?:\"[^\"]*?\"|'[^']*?'))?  # = sign; comma is for", "              \\s*[=,]\\s*  # = sign; comma is for"))
M("c01-pyblock-before-tags", "C01", "cascade-order", (LX, "            if self.match_tag_start():\n                continue\n            if self.match_tag_end():\n                continue\n            if self.match_python_block():\n                continue", "            if self.match_python_block():\n                continue\n            if self.match_tag_start():\n                continue\n            if self.match_tag_end():\n                continue"))
M("c01-no-percent-matcher", "C01", "zero-width-consumer", (LX, "            if self.match_percent():\n                continue\n", ""))
M("c01-cursor-moved-outside", "C01", "cursor-owner", (LX, "            text, end = self.parse_until_text(False, r\"%>\")\n", "            text, end = self.parse_until_text(False, r\"%>\")\n            self.match_position += 0\n"))
M("c01-no-progress", "C01", "progress", (LX, "self.match_position = end + 1 if end == start else end", "self.match_position = end"))
M("c01-text-content-stripped", "C01", "verbatim-flow", (LX, "                self.append_node(parsetree.Text, text)\n            return True", "                self.append_node(parsetree.Text, text.rstrip(' '))\n            return True"))
M("c01-visittext-no-repr", "C01", "verbatim-flow", (CG, 'self.printer.writeline("__M_writer(%s)" % repr(node.content))', 'self.printer.writeline("__M_writer(\'%s\')" % node.content)'))
M("c01-crlf-control-line", "C01", "crlf", (LX, '            r"(?:\\r?\\n|\\Z)",\n            re.M,', '            r"(?:\\n|\\Z)",\n            re.M,'))
M("c01-linecount-wrong-span", "C01", "line-count", (LX, 'self.lineno += self.text[mp : self.match_position].count("\\n")', 'self.lineno += match.group(0).count("\\n")'))
M("c01-scan-returns-group", "C01", "zero-width-consumer", (LX, "                    self.text[\n                        startpos : self.match_position - len(match.group(1))\n                    ],", "                    self.text[\n                        self.match_position - 1 : self.match_position - len(match.group(1))\n                    ],"))
M("c01-benign-max", "C01", "silent", (LX, "self.match_position = end + 1 if end == start else end", "self.match_position = max(end, start + 1)"))

# ---------------------------------------------------------------- C10
F = "mako/filters.py"
M("c10-handler-str-bytes", "C10", "handler-type", (F, 'return (str(text, "ascii"), ex.end)', 'return (str(text), ex.end)'))
M("c10-xml-class-no-quote", "C10", "xml-table", (F, "r'([&<\"\\'>])'", "r'([&<\">])'"))
M("c10-xml-table-extra-key", "C10", "xml-table", (F, "    \"'\": \"&#39;\",  # also &apos; in html-only\n", ""))
M("c10-escapable-latin1-only", "C10", "entity-escaper", (F, "r'[\"&<>]|[^\\x00-\\x7f]'", "r'[\"&<>]|[\\x80-\\xff]'"))
M("c10-escapable-no-amp", "C10", "entity-escaper", (F, "r'[\"&<>]|[^\\x00-\\x7f]'", "r'[\"<>]|[^\\x00-\\x7f]'"))
M("c10-decode-bytes-returned", "C10", "decode-type", (F, "                return str(x, encoding=key)", "                return x"))
M("c10-trim-chars", "C10", "small", (F, "    return string.strip()", "    return string.strip(' ')"))
M("c10-flag-h-xml", "C10", "small", (F, '"h": "filters.html_escape",', '"h": "filters.xml_escape",'))
M("c10-handler-name", "C10", "handler-type", (F, 'codecs.register_error("htmlentityreplace", htmlentityreplace_errors)', 'codecs.register_error("htmlentityreplaced", htmlentityreplace_errors)'))
M("c10-benign-decode", "C10", "silent", (F, 'return (str(text, "ascii"), ex.end)', 'return (text.decode("ascii"), ex.end)'))

# ---------------------------------------------------------------- C18
CM = "mako/cmd.py"
M("c18-raw-label-compare", "C18", "label-compare", (LX, 'if m is not None and _normalize_encoding(m.group(1)) != "utf-8":', 'if m is not None and m.group(1) != "utf-8":'))
M("c18-cmd-bytes-to-stdout", "C18", "render-encoding", (CM, "        elif output_encoding:\n            sys.stdout.buffer.write(rendered)\n        else:", "        else:"))
M("c18-input-encoding-first", "C18", "precedence", (LX, "parsed_encoding = m.group(1) if m else known_encoding or \"utf-8\"", "parsed_encoding = known_encoding or (m.group(1) if m else \"utf-8\")"))
M("c18-str-branch-default-ascii", "C18", "precedence", (LX, 'encoding = m and m.group(1) or known_encoding or "utf-8"', 'encoding = m and m.group(1) or known_encoding or "ascii"'))
M("c18-decode-unwrapped", "C18", "decode-wrap", (LX, "            try:\n                text = text.decode(parsed_encoding)\n            except UnicodeDecodeError:\n                raise exceptions.CompileException(\n                    \"Unicode decode operation of encoding '%s' failed\"\n                    % parsed_encoding,\n                    text.decode(\"utf-8\", \"ignore\"),\n                    0,\n                    0,\n                    filename,\n                )", "            text = text.decode(parsed_encoding)"))
M("c18-bom-kept", "C18", "decode-wrap", (LX, "            text = text[len(codecs.BOM_UTF8) :]\n", "            text = text[1:]\n"))
M("c18-module-encoded-utf8", "C18", "module-encoding", (T, 'source = source.encode(lexer.encoding or "ascii")', 'source = source.encode("utf-8")'))
M("c18-render-unicode-encodes", "C18", "render-encoding", (R, "    if as_unicode:\n        buf = util.FastEncodingBuffer()\n    else:", "    if False:\n        buf = util.FastEncodingBuffer()\n    else:"))
M("c18-getvalue-always-encodes", "C18", "render-encoding", (U, "        if self.encoding:\n            return self.delim.join(self.data).encode(\n                self.encoding, self.errors\n            )\n        else:\n            return self.delim.join(self.data)", "        return self.delim.join(self.data).encode(\n            self.encoding or 'utf-8', self.errors\n        )"))
M("c18-coding-class-narrow", "C18", "module-encoding", (LX, 'r"#.*coding[:=][ \\t]*([-\\w.]+).*\\r?\\n"', 'r"#.*coding[:=][ \\t]*([-\\w]+).*\\r?\\n"'))
M("c18-comment-not-skipped", "C18", "decode-wrap", (LX, "        self.match_reg(self._coding_re)\n", ""))

# ---------------------------------------------------------------- C07
M("c07-ns-drops-calling-uri", "C07", "calling-uri", (R, "        self.inherits = inherits\n        self._templateuri = calling_uri\n        if callables is not None:\n            self.callables = {c.__name__: c for c in callables}\n\n    callables = ()", "        self.inherits = inherits\n        if callables is not None:\n            self.callables = {c.__name__: c for c in callables}\n\n    callables = ()"))
M("c07-include-direct-lookup", "C07", "single-gateway", (R, "    template = _lookup_template(context, uri, calling_uri)\n    callable_, ctx = _populate_self_namespace(", "    template = context.lookup.get_template(uri)\n    callable_, ctx = _populate_self_namespace("))
M("c07-no-adjust", "C07", "single-gateway", (R, "    uri = lookup.adjust_uri(uri, relativeto)\n", ""))
M("c07-emit-no-template-uri", "C07", "calling-uri", (CG, '"runtime._include_file(context, %s, _template_uri)"', '"runtime._include_file(context, %s, None)"'))
M("c07-ns-emitted-without-uri", "C07", "calling-uri", (CG, '" callables=%s, calling_uri=_template_uri)"\n                    % (node.name, callable_name)', '" callables=%s)"\n                    % (node.name, callable_name)'))
M("c07-include-keeps-parent", "C07", "include-isolation", (R, '        x.pop("parent", None)\n', ""))
M("c07-include-shares-context", "C07", "include-isolation", (R, "        context._clean_inheritance_tokens(), template\n    )\n    kwargs = _kwargs_for_include", "        context, template\n    )\n    kwargs = _kwargs_for_include"))
M("c07-context-overrides-args", "C07", "include-args", (R, '        if arg != "context" and arg in data and arg not in kwargs:\n            kwargs[arg] = data[arg]\n    return kwargs\n\n\ndef _render_context', '        if arg != "context" and arg in data:\n            kwargs[arg] = data[arg]\n    return kwargs\n\n\ndef _render_context'))
M("c07-get-template-root", "C07", "calling-uri", (R, "        return _lookup_template(self.context, uri, self._templateuri)", "        return _lookup_template(self.context, uri, None)"))
M("c07-no-translate", "C07", "single-gateway", (R, "    try:\n        return lookup.get_template(uri)\n    except exceptions.TopLevelLookupException as e:\n        raise exceptions.TemplateLookupException(\n            str(compat.exception_as())\n        ) from e", "    return lookup.get_template(uri)"))

# ---------------------------------------------------------------- C08
M("c08-set-order-loop", "C08", "hash-order", (CG, "        for ident in sorted(to_write, key=lambda i: (i in comp_idents, i)):", "        for ident in to_write:"))
M("c08-no-moduleinfo", "C08", "registry", (T, "            ModuleInfo(module, path, self, filename, None, None, None)\n", ""))
M("c08-list-defs-slice", "C08", "render-prefix", (T, 'return [i[7:] for i in dir(self.module) if i[:7] == "render_"]', 'return [i[6:] for i in dir(self.module) if i[:7] == "render_"]'))
M("c08-decorate-slice", "C08", "render-prefix", (R, "y.__name__ = render_fn.__name__[7:]", "y.__name__ = render_fn.__name__[6:]"))
M("c08-module-attr-renamed", "C08", "module-attrs", (CG, 'self.printer.writeline("_enable_loop = %r" % self.compiler.enable_loop)', 'self.printer.writeline("_loop_enabled = %r" % self.compiler.enable_loop)'))
M("c08-compile-drops-strict", "C08", "one-pipeline", (T, "        strict_undefined=template.strict_undefined,\n", ""))
M("c08-lookup-drops-option", "C08", "one-pipeline", (L, '            "strict_undefined": strict_undefined,\n', ""))
M("c08-filepath-other-filters", "C08", "one-pipeline", (T, "        default_filters=template.default_filters,\n", "        default_filters=template.default_filters if generate_magic_comment else [\"str\"],\n"))
M("c08-render-unicode-direct", "C08", "one-pipeline", (T, "        return runtime._render(\n            self, self.callable_, args, data, as_unicode=True\n        )", "        return runtime._render(\n            self, self.module.render_body, args, data, as_unicode=True\n        )"))
M("c08-deftemplate-loses-handler", "C08", "one-pipeline", (T, "        self.error_handler = parent.error_handler\n", ""))
M("c08-benign-sorted-list", "C08", "silent", (CG, "        for ident in sorted(to_write, key=lambda i: (i in comp_idents, i)):", "        ordered = sorted(to_write, key=lambda i: (i in comp_idents, i))\n        for ident in ordered:"))

# ---------------------------------------------------------------- C02
M("c02-page-after-local", "C02", "compose", (CG, "                    args = self.compiler.pagetag.filter_args.args + args", "                    args = args + self.compiler.pagetag.filter_args.args"))
M("c02-defaults-ignore-page-n", "C02", "compose", (CG, '                if self.compiler.default_filters and "n" not in args:', '                if self.compiler.default_filters:'))
M("c02-defaults-before-page", "C02", "compose", (CG, '                if self.compiler.pagetag:\n                    args = self.compiler.pagetag.filter_args.args + args\n                if self.compiler.default_filters and "n" not in args:\n                    args = self.compiler.default_filters + args', '                if self.compiler.default_filters and "n" not in args:\n                    args = self.compiler.default_filters + args\n                if self.compiler.pagetag:\n                    args = self.compiler.pagetag.filter_args.args + args'))
M("c02-defaults-for-defs", "C02", "compose", (CG, '        if "n" not in args:\n            if is_expression:\n                if self.compiler.pagetag:', '        if "n" not in args:\n            if True:\n                if self.compiler.pagetag:'))
M("c02-wrap-reversed", "C02", "wrap-order", (CG, '            target = "%s(%s)" % (e, target)\n        return target', '            target = "%s(%s)" % (target, e)\n        return target'))
M("c02-text-filter-expression", "C02", "sites", (CG, '                    node.filter_args.args, "__M_buf.getvalue()", False\n                ),', '                    node.filter_args.args, "__M_buf.getvalue()", True\n                ),'))
M("c02-expression-not-expression", "C02", "sites", (CG, 'node.escapes_code.args, "%s" % node.text, True', 'node.escapes_code.args, "%s" % node.text, False'))
M("c02-guard-drops-page", "C02", "guard", (CG, "            len(node.escapes)\n            or (\n                self.compiler.pagetag is not None\n                and len(self.compiler.pagetag.filter_args.args)\n            )\n            or len(self.compiler.default_filters)", "            len(node.escapes)\n            or len(self.compiler.default_filters)"))
M("c02-n-emitted", "C02", "wrap-order", (CG, '            if e == "n":\n                continue\n', ""))

# ---------------------------------------------------------------- C04
M("c04-copy-shares-data", "C04", "context-isolation", (R, "        c._data = self._data.copy()", "        c._data = self._data"))
M("c04-kwargs-no-copy", "C04", "context-isolation", (R, "        return self._kwargs.copy()", "        return self._kwargs"))
M("c04-locals-mutates-self", "C04", "context-isolation", (R, "        c = self._copy()\n        c._data.update(d)\n        return c", "        self._data.update(d)\n        return self"))
M("c04-render-skips-check", "C04", "reserved-at-render", (R, "    context._set_with_template(template)\n\n    _render_context(", "    context._with_template = template\n\n    _render_context("))
M("c04-compile-check-skipped", "C04", "reserved-at-compile", (CG, "        if node is not None:\n            node.accept_visitor(self)\n\n        illegal_names", "        if node is None:\n            return\n        node.accept_visitor(self)\n\n        illegal_names"))
M("c04-getitem-builtins-first", "C04", "lookup-siblings", (R, "        if key in self._data:\n            return self._data[key]\n        else:\n            return builtins.__dict__[key]", "        if key in builtins.__dict__:\n            return builtins.__dict__[key]\n        else:\n            return self._data[key]"))
M("c04-filter-copy-drops-context", "C04", "lookup-siblings", (CG, "    def visitTextTag(self, node):\n        for ident in node.undeclared_identifiers():\n            if ident != \"context\" and ident not in self.declared.union(", "    def visitTextTag(self, node):\n        for ident in node.undeclared_identifiers():\n            if ident not in self.declared.union("))
M("c04-strict-undefined-default", "C04", "strict-emission", (CG, '                            "try:",\n                            "%s = context[%r]" % (ident, ident),\n                            "except KeyError:",\n                            "raise NameError(\\"\'%s\' is not defined\\")" % ident,\n                            None,\n                        )', '                            "%s = context.get(%r, UNDEFINED)" % (ident, ident),\n                        )'))
M("c04-context-before-imports", "C04", "strict-emission", (CG, '                            "%s = _import_ns.get"\n                            "(%r, context.get(%r, UNDEFINED))"', '                            "%s = context.get"\n                            "(%r, _import_ns.get(%r, UNDEFINED))"'))
M("c04-kwargs-after-builtins", "C04", "context-isolation", (R, "        self._kwargs = data.copy()\n        self._with_template = None", "        self._with_template = None"), (R, "        self.caller_stack = self._data[\"caller\"] = CallerStack()\n", "        self.caller_stack = self._data[\"caller\"] = CallerStack()\n        self._kwargs = data.copy()\n"))

# ---------------------------------------------------------------- C06
M("c06-block-always-called", "C06", "block-guard", (CG, '            self.printer.writeline(\n                "if \'parent\' not in context._data or "\n                "not hasattr(context._data[\'parent\'], \'%s\'):" % node.funcname\n            )', '            self.printer.writeline("if True:")'))
M("c06-block-direct-call", "C06", "block-guard", (CG, '"context[\'self\'].%s(%s)" % (node.funcname, ",".join(nameargs))', '"render_%s(context, %s)" % (node.funcname, ",".join(nameargs[1:] or nameargs))'))
M("c06-duplicate-accepted", "C06", "registration", (CG, "            and (node.is_block or existing.is_block)\n        ):", "            and (node.is_block and existing.is_block and False)\n        ):"))
M("c06-named-in-call-allowed", "C06", "registration", (CG, "                self.node, (parsetree.CallTag, parsetree.CallNamespaceTag)", "                self.node, (parsetree.CallTag,)"))
M("c06-getattr-inherits-first", "C06", "getattr-order", (R, "        if key in self.callables:\n            val = self.callables[key]\n        elif self.template.has_def(key):\n            callable_ = self.template._get_def_callable(key)\n            val = functools.partial(callable_, self.context)\n        elif self.inherits:\n            val = getattr(self.inherits, key)\n", "        if key in self.callables:\n            val = self.callables[key]\n        elif self.inherits:\n            val = getattr(self.inherits, key)\n        elif self.template.has_def(key):\n            callable_ = self.template._get_def_callable(key)\n            val = functools.partial(callable_, self.context)\n"))
M("c06-next-is-self", "C06", "wiring", (R, '    lclcontext = context._locals({"next": ih})', '    lclcontext = context._locals({"next": self_ns})'))
M("c06-parent-not-published", "C06", "wiring", (R, '    context._data["parent"] = lclcontext._data["local"] = ih.inherits', '    lclcontext._data["local"] = ih.inherits'))
M("c06-attach-at-self", "C06", "wiring", (R, "    while ih.inherits is not None:\n        ih = ih.inherits\n    lclcontext", "    lclcontext"))
M("c06-first-inherit", "C06", "wiring", (CG, "            self.write_inherit(inherit[-1])", "            self.write_inherit(inherit[0])"))

# ---------------------------------------------------------------- C11
M("c11-code-no-kwargs", "C11", "position-carried", (PT, "        self.code = ast.PythonCode(text, **self.exception_kwargs)\n\n    def declared_identifiers(self):\n        return self.code.declared_identifiers\n\n    def undeclared_identifiers(self):\n        return self.code.undeclared_identifiers\n\n    def __repr__(self):\n        return \"Code(", "        self.code = ast.PythonCode(text)\n\n    def declared_identifiers(self):\n        return self.code.declared_identifiers\n\n    def undeclared_identifiers(self):\n        return self.code.undeclared_identifiers\n\n    def __repr__(self):\n        return \"Code("))
M("c11-identifiers-wrong-node", "C11", "position-carried", (CG, '                    "Named block \'%s\' not allowed inside of def \'%s\'"\n                    % (node.name, self.node.name),\n                    **node.exception_kwargs,', '                    "Named block \'%s\' not allowed inside of def \'%s\'"\n                    % (node.name, self.node.name),\n                    **self.node.exception_kwargs,'))
M("c11-builtin-exception", "C11", "error-discipline", (LX, '                raise exceptions.SyntaxException(\n                    "Invalid control line: \'%s\'" % text,\n                    **self.exception_kwargs,\n                )', '                raise ValueError("Invalid control line: \'%s\'" % text)'))
M("c11-elif-offset-zero", "C11", "offset-algebra", (A, '            code = "if False:pass\\n" + code + "pass"\n            lineno_offset = -1', '            code = "if False:pass\\n" + code + "pass"\n            lineno_offset = 0'))
M("c11-strip-offset-dropped", "C11", "offset-algebra", (A, '            lineno_offset += code[: len(code) - len(stripped)].count("\\n")\n', ""))
M("c11-adjust-off-by-one", "C11", "offset-algebra", (P, '"lineno": lineno + lineno_offset + exc_lineno - 1,', '"lineno": lineno + lineno_offset + exc_lineno,'))
M("c11-scan-raise-at-end", "C11", "start-captured", (LX, '                    "lineno": startlineno,\n                    "pos": startcharpos,', '                    "lineno": self.matched_lineno,\n                    "pos": self.matched_charpos,'))
M("c11-expr-node-at-end", "C11", "start-captured", (LX, "            escapes.strip(),\n            lineno=line,\n            pos=pos,", "            escapes.strip(),"))
M("c11-string-path-no-filename", "C11", "same-on-all-paths", (T, "            code, module = _compile_text(self, text, filename)\n            self._code = code\n            self._source = text", "            code, module = _compile_text(self, text, None)\n            self._code = code\n            self._source = text"))
M("c11-raise-no-position", "C11", "position-carried", (PT, '            raise exceptions.CompileException(\n                "Missing parenthesis in %def", **self.exception_kwargs\n            )', '            raise exceptions.CompileException(\n                "Missing parenthesis in %def", None, 0, 0, None\n            )'))

# ---------------------------------------------------------------- C19
AU = "mako/_ast_util.py"
M("c19-no-pow", "C19", "regen-exhaustive", (AU, '    Pow: "**",\n', ""))
M("c19-kwargs-crash", "C19", "regen-exhaustive", (AU, "            if keyword.arg is None:\n                self.write(\"**\")\n            else:\n                self.write(keyword.arg + \"=\")\n            self.visit(keyword.value)\n        if getattr(node, \"starargs\", None):\n            write_comma()\n            self.write(\"*\")\n            self.visit(node.starargs)\n        if getattr(node, \"kwargs\", None):\n            write_comma()\n            self.write(\"**\")\n            self.visit(node.kwargs)\n        self.write(\")\")\n\n    def visit_Name", "            self.write(keyword.arg + \"=\")\n            self.visit(keyword.value)\n        if getattr(node, \"starargs\", None):\n            write_comma()\n            self.write(\"*\")\n            self.visit(node.starargs)\n        if getattr(node, \"kwargs\", None):\n            write_comma()\n            self.write(\"**\")\n            self.visit(node.kwargs)\n        self.write(\")\")\n\n    def visit_Name"))
M("c19-ifexp-operand-bare", "C19", "regen-precedence", (AU, "        if isinstance(node, (IfExp, Lambda)):\n            self.write(\"(\")\n            self.visit(node)\n            self.write(\")\")\n        else:\n            self.visit(node)", "        self.visit(node)"))
M("c19-fallback-removed", "C19", "regen-exhaustive", (AU, "        if isinstance(node, expr):\n            self.write(\"(%s)\" % unparse(node))\n        else:\n            NodeVisitor.generic_visit(self, node)", "        NodeVisitor.generic_visit(self, node)"))
M("c19-compare-drops-comparators", "C19", "regen-exhaustive", (AU, "        for op, right in zip(node.ops, node.comparators):\n            self.write(\" %s \" % CMPOP_SYMBOLS[type(op)])\n            self.visit_operand(right)", "        for op in node.ops[:0]:\n            self.write(\" %s \" % CMPOP_SYMBOLS[type(op)])"))
M("c19-vararg-unbound", "C19", "idents-fields", (P, "        if args.vararg:\n            argnames.append(arg_id(args.vararg))\n", ""))
M("c19-defaults-unvisited", "C19", "idents-fields", (P, "        for default in args.defaults + args.kw_defaults:\n            if default is not None:\n                self.visit(default)\n", ""))
M("c19-comp-elt-skipped", "C19", "idents-fields", (P, "                for if_ in comp.ifs:\n                    self.visit(if_)\n            self.visit(node.elt)\n", "                for if_ in comp.ifs:\n                    self.visit(if_)\n"))
M("c19-expression-keeps-own-bindings", "C19", "idents-consumers", (PT, "        ).difference(self.code.declared_identifiers)\n\n    def __repr__(self):\n        return \"Expression(", "        )\n\n    def __repr__(self):\n        return \"Expression("))
M("c19-printer-counts-comment-quotes", "C19", "remargin-siblings", (PG, "                m = re.match(r\".*?(\\\"\\\"\\\"|\\'\\'\\'|#)\", line)\n                if not m or m.group(1) == \"#\":\n                    break", "                m = re.match(r\".*?(\\\"\\\"\\\"|\\'\\'\\')\", line)\n                if not m:\n                    break"))
M("c19-benign-rename-helper", "C19", "silent", (AU, "        # conditional expressions and lambdas bind looser than any\n", "        # (comment) conditional expressions and lambdas bind looser than any\n"))

# ---------------------------------------------------------------- C20
EXT = "mako/ext/extract.py"
BB = "mako/ext/babelplugin.py"
M("c20-filters-not-scanned", "C20", "dispatch-exhaustive", (EXT, '                if node.escapes:\n                    # the filters, which may be calls with arguments\n                    code = "%s | %s" % (code, node.escapes)\n', ""))
M("c20-namespace-skipped", "C20", "descent", (EXT, "            elif isinstance(node, parsetree.NamespaceTag):\n                # the defs written inside of a <%namespace>\n                in_translator_comments = False\n                yield from self.extract_nodes(node.nodes)\n                continue\n", ""))
M("c20-pagetag-dropped", "C20", "dispatch-exhaustive", (EXT, "            elif isinstance(node, parsetree.PageTag):\n                code = node.body_decl.code\n", ""))
M("c20-block-children-skipped", "C20", "descent", (EXT, "            elif isinstance(node, parsetree.BlockTag):\n                code = node.body_decl.code\n                child_nodes = node.nodes", "            elif isinstance(node, parsetree.BlockTag):\n                code = node.body_decl.code"))
M("c20-lineno-uncompensated", "C20", "offset-algebra", (EXT, "                code, node.lineno - 1, translator_strings", "                code, node.lineno, translator_strings"))
M("c20-babel-off-by-one", "C20", "offset-algebra", (BB, "                code_lineno + (lineno - 1),", "                code_lineno + lineno,"))
M("c20-text-scanned", "C20", "dispatch-exhaustive", (EXT, "            elif isinstance(node, parsetree.Expression):\n                code = node.code.code\n", "            elif isinstance(node, parsetree.Text):\n                code = node.content\n            elif isinstance(node, parsetree.Expression):\n                code = node.code.code\n"))
M("c20-def-signature-dropped", "C20", "dispatch-exhaustive", (EXT, "                code = node.function_decl.code\n", "                code = ''\n"))

# ---------------------------------------------------------------- round-2 rules
M("c01-coding-re-spans-lines", "C01", "escapes-consume", (LX, 'r"#.*coding[:=][ \\t]*([-\\w.]+).*\\r?\\n"', 'r"#.*coding[:=]\\s*([-\\w.]+).*\\r?\\n"'))
M("c03-loop-parent-bottom", "C03", "loop-pairing", (R, "            new.parent = self.stack[-1]\n", "            new.parent = self.stack[0]\n"))
M("c07-ns-key-no-self", "C07", "memo-keys", (R, "        key = (self, uri)\n", "        key = (__name__, uri)\n"))
M("c10-decode-shared-state", "C10", "decode-type", ("mako/filters.py", "    def __getattr__(self, key):\n        def decode(x):", "    def __getattr__(self, key):\n        self._enc = key\n\n        def decode(x):"))
