"""Seeded defects and benign twins (see run.py).  Each entry names the rule
expected to fire; `silent` marks behaviour-preserving edits."""

MUTANTS = []


def M(id, prop, expect, *edits):
    MUTANTS.append(dict(id=id, prop=prop, expect=expect, edits=list(edits)))


T = "mako/template.py"
L = "mako/lookup.py"
R = "mako/runtime.py"
CG = "mako/codegen.py"
LX = "mako/lexer.py"
U = "mako/util.py"

# ---------------------------------------------------------------- C09
M("c09-drop-lstrip-template", "C09", "normaliser-agreement", (T, 'self.uri.replace("\\\\", "/").lstrip("/")', 'self.uri.replace("\\\\", "/")'))
M("c09-drop-replace-template", "C09", "normaliser-agreement", (T, 'self.uri.replace("\\\\", "/").lstrip("/")', 'self.uri.lstrip("/")'))
M("c09-drop-replace-lookup", "C09", "normaliser-agreement", (L, 'uri.replace("\\\\", "/"))', 'uri)'))
M("c09-drop-strip-lookup", "C09", "normaliser-agreement", (L, 'u = re.sub(r"^\\/+", "", uri.replace("\\\\", "/"))', 'u = uri.replace("\\\\", "/")'))
M("c09-strip-one-slash-lookup", "C09", "normaliser-agreement", (L, 'r"^\\/+"', 'r"^\\/"'))
M("c09-norm-before-strip", "C09", "normaliser-agreement", (T, 'u_norm = self.uri.replace("\\\\", "/").lstrip("/")\n        u_norm = os.path.normpath(u_norm)', 'u_norm = os.path.normpath(self.uri.replace("\\\\", "/"))\n        u_norm = u_norm.lstrip("/")'))
M("c09-module-path-raw-uri", "C09", "module-path", (T, 'os.path.normpath(module_directory), u_norm + ".py"', 'os.path.normpath(module_directory), self.uri.lstrip("/") + ".py"'))
M("c09-guard-after-compile", "C09", "guard-dominates", (T, '        if u_norm.startswith(".."):\n            raise exceptions.TemplateLookupException(\n                \'Template uri "%s" is invalid - \'\n                "it cannot be relative outside "\n                "of the root path." % self.uri\n            )\n', ''), (T, '        self.module = module\n        self.filename = filename\n        self.callable_ = self.module.render_body\n        self.format_exceptions', '        self.module = module\n        if u_norm.startswith(".."):\n            raise exceptions.TemplateLookupException("x")\n        self.filename = filename\n        self.callable_ = self.module.render_body\n        self.format_exceptions'))
M("c09-guard-warn-only", "C09", "guard", (T, '            raise exceptions.TemplateLookupException(\n                \'Template uri "%s" is invalid - \'', '            warnings.warn(\n                \'Template uri "%s" is invalid - \''))
M("c09-load-normalised-uri", "C09", "same-uri", (L, "return self._load(srcfile, uri)", "return self._load(srcfile, u)"))
M("c09-runtime-reads-file", "C09", "who-may-open", (R, "    template = _lookup_template(context, uri, calling_uri)\n    callable_, ctx", "    open(uri).close()\n    template = _lookup_template(context, uri, calling_uri)\n    callable_, ctx"))
M("c09-benign-rename", "C09", "silent", (T, 'u_norm = self.uri.replace("\\\\", "/").lstrip("/")\n        u_norm = os.path.normpath(u_norm)\n        if u_norm.startswith(".."):', 'unorm = self.uri.replace("\\\\", "/").lstrip("/")\n        unorm = os.path.normpath(unorm)\n        u_norm = unorm\n        if unorm.startswith(".."):'))
M("c09-benign-lstrip-in-lookup", "C09", "silent", (L, 'u = re.sub(r"^\\/+", "", uri.replace("\\\\", "/"))', 'u = uri.replace("\\\\", "/").lstrip("/")'))
