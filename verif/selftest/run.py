"""Self-test of the checkers: seeded defects (must fire, naming the rule) and
benign twins (must stay silent), applied to scratch copies of /repo/mako under
a fresh temporary directory that is removed immediately.

A mutant is  (id, property, expect, file, old, new[, count])  where `expect`
is a rule-name suffix that must appear among the new violations, or "silent".
Edits are exact-substring replacements; the edited file must still compile()."""

import concurrent.futures
import json
import os
import shutil
import subprocess
import sys
import tempfile

from .. import core


def load_mutants():
    from . import mutants
    return mutants.MUTANTS


def run_one(m):
    mid, prop, expect, edits = m["id"], m["prop"], m["expect"], m["edits"]
    tmp = tempfile.mkdtemp(prefix="vst-")
    try:
        dst = os.path.join(tmp, "repo")
        os.makedirs(dst)
        shutil.copytree(os.path.join(core.REPO, "mako"), os.path.join(dst, "mako"),
                        ignore=shutil.ignore_patterns("__pycache__"))
        for rel, old, new in edits:
            p = os.path.join(dst, rel)
            s = open(p, encoding="utf-8").read()
            if s.count(old) < 1:
                return dict(id=mid, prop=prop, status="STALE", detail="pattern not found in %s" % rel)
            s = s.replace(old, new, 1)
            try:
                compile(s, p, "exec")
            except SyntaxError as e:
                return dict(id=mid, prop=prop, status="BADMUT", detail=str(e))
            open(p, "w", encoding="utf-8").write(s)
        env = dict(os.environ, VERIF_REPO=dst, PYTHONPATH=core.VERIF_ROOT, PYTHONDONTWRITEBYTECODE="1",
                   VERIF_EVIDENCE_DIR=os.path.join(tmp, "ev"), VERIF_OUT_DIR=os.path.join(tmp, "out"))
        r = subprocess.run([sys.executable, "-m", "verif.main", prop], cwd=core.VERIF_ROOT, env=env,
                           capture_output=True, text=True, timeout=300)
        out = r.stdout + r.stderr
        fired = [l for l in out.splitlines() if l.startswith("  C") or l.startswith("VIOLATION") or l.startswith("ANALYSIS-ERROR")]
        if expect == "silent":
            ok = r.returncode == 0
        else:
            ok = r.returncode == 1 and any(expect in l for l in fired)
        return dict(id=mid, prop=prop, status="PASS" if ok else "FAIL", rc=r.returncode, expect=expect,
                    detail="\n".join(fired[:6]))
    finally:
        shutil.rmtree(tmp, ignore_errors=True)


def main(jobs=16, only=None):
    muts = load_mutants()
    if only:
        muts = [m for m in muts if only in m["id"] or only == m["prop"]]
    res = []
    with concurrent.futures.ThreadPoolExecutor(max_workers=jobs) as ex:
        for r in ex.map(run_one, muts):
            res.append(r)
            if r["status"] != "PASS":
                print("%-6s %-4s %-40s rc=%s expect=%s\n%s" % (r["status"], r["prop"], r["id"], r.get("rc"), r.get("expect"), r.get("detail", "")))
    n = len(res)
    p = sum(1 for r in res if r["status"] == "PASS")
    print("selftest: %d/%d pass (%d seeded, %d benign)" % (
        p, n, sum(1 for m in muts if m["expect"] != "silent"), sum(1 for m in muts if m["expect"] == "silent")))
    os.makedirs(core.OUT_DIR, exist_ok=True)
    with open(os.path.join(core.OUT_DIR, "selftest.json"), "w") as f:
        json.dump(res, f, indent=1)
    return 0 if p == n else 1
