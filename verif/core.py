"""Rule registry, verdict bookkeeping, evidence / violation reports.

Static analysis only: nothing under /repo is ever imported or executed.
Exit codes: 0 = all obligations discharged (known findings printed),
1 = at least one violation not in known_findings.json, 2 = ANALYSIS-ERROR.
"""

import hashlib
import json
import os
import sys
import time
import traceback

VERIF_ROOT = os.path.dirname(os.path.dirname(os.path.abspath(__file__)))
REPO = os.environ.get("VERIF_REPO", "/repo")
OUT_DIR = os.environ.get("VERIF_OUT_DIR") or os.path.join(VERIF_ROOT, "out")
EVIDENCE_DIR = os.environ.get("VERIF_EVIDENCE_DIR") or os.path.join(VERIF_ROOT, "evidence")
KNOWN_FINDINGS = os.path.join(VERIF_ROOT, "known_findings.json")


class AnalysisError(Exception):
    """The checker cannot analyse the tree (anchor vanished, unknown shape in a
    primary rule, vacuity guard).  Never reported as a violation."""


class AnchorMissing(AnalysisError):
    pass


class Undecided(Exception):
    """Raised inside a *secondary* rule for an unrecognised idiom."""


class RuleSpec:
    def __init__(self, rid, fn, primary, min_instances, doc):
        self.rid = rid
        self.fn = fn
        self.primary = primary
        self.min_instances = min_instances
        self.doc = doc


REGISTRY = {}  # property id -> [RuleSpec]


def rule(rid, primary=True, min_instances=1, props=None):
    """Register a rule.  ``rid`` is '<Cxx>.<name>'.  ``props`` lists further
    properties the same rule also serves (it is then reported there under
    '<Cyy>.<name>')."""

    def deco(fn):
        prop, name = rid.split(".", 1)
        for p in [prop] + list(props or ()):
            REGISTRY.setdefault(p, []).append(
                RuleSpec("%s.%s" % (p, name), fn, primary, min_instances,
                         (fn.__doc__ or "").strip())
            )
        return fn

    return deco


class Ctx:
    """Handed to each rule: the facts DB plus verdict sinks."""

    def __init__(self, db, prop, spec, tier):
        self.db = db
        self.prop = prop
        self.spec = spec
        self.tier = tier
        self.items = []  # dicts: status, rule, key, where, note
        self._seen = set()
        self.raw = 0  # verdicts issued, repeats of one (status, key) included
        self.info = {}

    # -- verdict sinks ---------------------------------------------------
    def _dup(self, status, key):
        self.raw += 1
        k = (status, key)
        if k in self._seen:
            return True
        self._seen.add(k)
        return False

    def ok(self, key, where="", note=""):
        if self._dup("ok", key):
            return
        self.items.append(
            dict(status="ok", rule=self.spec.rid, key=key, where=where, note=note)
        )

    def violation(self, key, where, note, **detail):
        if self._dup("violation", key):
            return
        self.items.append(
            dict(status="violation", rule=self.spec.rid, key=key, where=where,
                 note=note, detail=detail)
        )

    def undecided(self, key, where, note):
        if self.spec.primary:
            raise AnalysisError(
                "%s: primary rule met an unknown shape at %s [%s]: %s"
                % (self.spec.rid, where, key, note)
            )
        self.items.append(
            dict(status="undecided", rule=self.spec.rid, key=key, where=where,
                 note=note)
        )

    def check(self, cond, key, where, note_bad, note_ok="", **detail):
        if cond:
            self.ok(key, where, note_ok)
        else:
            self.violation(key, where, note_bad, **detail)
        return cond

    def require(self, cond, what):
        """Anchor / shape requirement of the checker itself."""
        if not cond:
            raise AnalysisError("%s: %s" % (self.spec.rid, what))

    def note(self, k, v):
        self.info[k] = v


def load_known():
    try:
        with open(KNOWN_FINDINGS) as f:
            data = json.load(f)
    except FileNotFoundError:
        return [], []
    return data.get("findings", []), data.get("fixed", [])


def _slug(s):
    return "".join(c if c.isalnum() or c in "-_." else "_" for c in s)[:80]


def run_property(prop, tier="quick", db=None, only_rule=None, quiet=False):
    """Run every rule of ``prop``; write evidence; print verdict lines.
    Returns the process exit code."""
    from .engine import facts

    t0 = time.time()
    seed = int(os.environ.get("VERIF_SEED", "0") or 0)
    errors = []
    items = []
    rule_stats = []
    raw_total = 0
    infos = {}
    try:
        if db is None:
            db = facts.DB(REPO)
        # import every rule module: rules are shared between properties (props=[...]) wherever one mechanism carries several of them
        for i in range(1, 21):
            __import__("verif.rules.c%02d" % i)
    except AnalysisError as e:
        errors.append("setup: %s" % e)
    except Exception:
        errors.append("setup: " + traceback.format_exc())
    specs = REGISTRY.get(prop, [])
    if not specs and not errors:
        errors.append("no rules registered for %s" % prop)
    for spec in specs:
        if only_rule and spec.rid != only_rule:
            continue
        ctx = Ctx(db, prop, spec, tier)
        try:
            spec.fn(ctx)
            n = len(ctx.items)
            if n < spec.min_instances and not any(i["status"] == "violation" for i in ctx.items):
                # a rule that stopped at a violation has not been vacuous
                raise AnalysisError(
                    "%s: matched %d instances, frozen minimum is %d (vacuity guard)"
                    % (spec.rid, n, spec.min_instances)
                )
        except Undecided as e:
            if spec.primary:
                errors.append("%s: %s" % (spec.rid, e))
            else:
                ctx.items.append(dict(status="undecided", rule=spec.rid,
                                      key="rule", where="", note=str(e)))
        except AnalysisError as e:
            if spec.primary:
                errors.append(str(e))
            else:
                ctx.items.append(dict(status="undecided", rule=spec.rid,
                                      key="rule", where="", note=str(e)))
        except Exception:
            errors.append("%s: internal error\n%s" % (spec.rid, traceback.format_exc()))
        items.extend(ctx.items)
        raw_total += ctx.raw
        if ctx.info:
            infos[spec.rid] = ctx.info
        rule_stats.append(
            dict(rule=spec.rid, primary=spec.primary,
                 instances=len(ctx.items),
                 ok=sum(1 for i in ctx.items if i["status"] == "ok"),
                 violations=sum(1 for i in ctx.items if i["status"] == "violation"),
                 undecided=sum(1 for i in ctx.items if i["status"] == "undecided"),
                 what=spec.doc.split("\n")[0])
        )

    known, fixed = load_known()
    known_keys = {(k["property"], k["rule"].split(".", 1)[1], k["key"]): k
                  for k in known}
    new_viol, known_hit = [], []
    for it in items:
        if it["status"] != "violation":
            continue
        k = (prop, it["rule"].split(".", 1)[1], it["key"])
        if k in known_keys:
            known_hit.append((it, known_keys[k]))
        else:
            new_viol.append(it)

    out = []
    replay_paths = []
    if new_viol:
        vdir = os.path.join(OUT_DIR, "violations", prop)
        os.makedirs(vdir, exist_ok=True)
        for it in new_viol:
            h = hashlib.sha1((it["rule"] + it["key"]).encode()).hexdigest()[:8]
            path = os.path.join(vdir, "%s-%s.json" % (_slug(it["rule"]), h))
            with open(path, "w") as f:
                json.dump(dict(property=prop, tier=tier, **it,
                               replay="./vcheck %s --replay %s" % (prop, path)),
                          f, indent=1, default=str)
            replay_paths.append(path)
            out.append("  %s [%s] at %s: %s" % (it["rule"], it["key"], it["where"], it["note"]))
            out.append("VIOLATION property=%s replay=%s" % (prop, path))
    for it, kf in known_hit:
        out.append("KNOWN-FINDING: property=%s %s [%s] %s" % (prop, it["rule"], it["key"], kf.get("what", it["note"])))
    for e in errors:
        out.append("ANALYSIS-ERROR property=%s %s" % (prop, e))

    n_obl = len(items)
    n_ok = sum(1 for i in items if i["status"] == "ok")
    n_und = sum(1 for i in items if i["status"] == "undecided")
    wall = time.time() - t0
    samples = []
    seen_rules = set()
    for it in items:  # one sample per rule first, then the rest up to a cap
        if it["rule"] not in seen_rules:
            seen_rules.add(it["rule"])
            samples.append({k: it[k] for k in ("rule", "key", "where", "status", "note")})
    for it in items:
        if len(samples) >= 60:
            break
        s = {k: it[k] for k in ("rule", "key", "where", "status", "note")}
        if s not in samples:
            samples.append(s)
    # distinct and non-trivial: distinct (rule, key) pairs whose verdict is tied to a location in /repo's source
    distinct = len({(i["rule"], i["key"]) for i in items if "mako/" in str(i.get("where") or "")})
    evidence = {
        "property_id": prop,
        "tier": tier if tier in ("quick", "thorough") else "quick",
        "seed": seed,
        "level": "other",
        "coverage": {
            "explanation": (
                "Static analysis of /repo's current source (never imported or run): "
                "%d rules produced %d obligations (rule instance = one resolved construct: "
                "call site, regex, emitted skeleton, CFG path set, table entry); %d ok, "
                "%d violations (%d listed in known_findings.json), %d undecided. "
                "See 'rules' for what each rule analysed and 'analysed' for the units parsed."
                % (len(rule_stats), n_obl, n_ok, len(new_viol) + len(known_hit), len(known_hit), n_und)
            ),
            "obligations": n_obl,
            "discharged": n_ok,
            "evaluations": max(raw_total, n_obl),
            "distinct_nontrivial": distinct,
            "rule": "evaluations = verdicts issued by the rules on this run (a construct reached through several paths / flag assignments is judged several times); obligations = verdicts after merging repeats of one (rule, key); distinct_nontrivial = distinct (rule, key) pairs whose verdict is tied to a file/function location found in /repo's source on this run (verdicts about delegated or absent constructs, which carry no location, are not counted)",
            "samples": samples,
            "rules": rule_stats,
            "analysed": db.summary() if db is not None else {},
            "rule_info": infos,
            "known_findings_hit": [dict(rule=i["rule"], key=i["key"], where=i["where"]) for i, _ in known_hit],
            "new_violations": [dict(rule=i["rule"], key=i["key"], where=i["where"], note=i["note"]) for i in new_viol],
            "analysis_errors": errors,
            "checker_cmd": "./vcheck %s --tier %s" % (prop, tier),
            "trusted_base": TRUSTED_BASE,
            "exhaustive": False,
        },
        "assumptions": ASSUMPTIONS,
        "wall_s": round(wall, 3),
        "violations": len(new_viol),
    }
    os.makedirs(EVIDENCE_DIR, exist_ok=True)
    with open(os.path.join(EVIDENCE_DIR, "%s.json" % prop), "w") as f:
        json.dump(evidence, f, indent=1, default=str)

    if not quiet:
        print("%s tier=%s rules=%d obligations=%d ok=%d violations=%d known=%d undecided=%d errors=%d wall=%.2fs"
              % (prop, tier, len(rule_stats), n_obl, n_ok, len(new_viol), len(known_hit), n_und, len(errors), wall))
        for line in out:
            print(line)
    if new_viol:
        return 1
    if errors:
        return 2
    return 0


TRUSTED_BASE = [
    "CPython ast and re._parser (syntax trees of the package source and of its regex literals)",
    "documented semantics of the stdlib calls named in rules (os.rename/shutil.move atomicity on one file system, posixpath.normpath/join, dict.copy, list.pop/append)",
    "generated module text is only produced through PythonPrinter",
    "the checker's own re-implementation of PythonPrinter's indentation automaton, parameterised by the regex constants read from pygen.py",
]
ASSUMPTIONS = [
    "structural necessary conditions only: values computed by regex matching on arbitrary text, Python evaluation, file-system histories and thread schedules are not decided",
    "user code inside templates may raise/return anywhere but does not touch Mako's private stacks",
    "third-party code (markupsafe, urllib, Beaker, Babel, Lingua) behaves as documented",
]
