"""C19 findings in the expression re-emitter (_ast_util.SourceGenerator),
repaired: defaults of def/page/block arguments and filter-call arguments are
re-emitted from their parsed form and must evaluate to the same values."""
from mako.template import Template

bad = 0
cases = [
    ("2**3", {}), ("(a if b else c) + 1", dict(a=1, b=0, c=5)), ("(lambda: 3)() + 1", {}), ("g(**d)", dict(g=lambda **k: sorted(k), d={"z": 1})),
    ("f'{a}-{b!r}'", dict(a=1, b="x")), ("{**d, 'k': 2}", dict(d={"j": 1})), ("m[1:2, 0]", dict(m=type("M", (), {"__getitem__": lambda s, i: repr(i)})())),
    ("(lambda *, k=4: k)()", {}), ("[y for y in (a if b else c)]", dict(a=[1], b=1, c=[2])), ("x @ y", dict(x=type("V", (), {"__matmul__": lambda s, o: 42})(), y=1)),
    ("(lambda p, /, q=2: p + q)(1)", {}), ("not (a if b else c)", dict(a=0, b=1, c=1)),
]
for expr, env in cases:
    want = eval(expr, dict(env))
    try:
        got = Template('<%def name="o()"><%def name="f(v=' + expr.replace('"', "'") + ')">${repr(v)}</%def>${f()}</%def>${o()}').render(**env).strip()
    except Exception as e:
        got = "%s: %s" % (type(e).__name__, str(e)[:50])
    ok = got == repr(want)
    bad += not ok
    print("%-6s default %-32s -> %s (python: %r)" % ("ok" if ok else "DEFECT", expr, got, want))
raise SystemExit(1 if bad else 0)
