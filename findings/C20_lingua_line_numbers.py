"""C20 (fixed): the Lingua extractor stripped the code handed to it -
including the newline extract_nodes prepends and any newline a <% %> block
starts with - without adding the removed lines to the line it reports:
every message was reported 1 (expressions, control lines) or more (blocks)
lines too early.  Babel's path was right."""
import io

from lingua.extractors import register_extractors

from mako.ext.babelplugin import extract as babel_extract
from mako.ext.linguaplugin import LinguaMakoExtractor

register_extractors()


class O:
    keywords = []
    domain = None
    comment_tag = True


src = "line1\n${_('two')}\n<%\n  x = _('four')\n\n  y = _('six')\n%>\n% if _('eight'):\n% endif\n"
lingua = [(m.location[1], m.msgid) for m in LinguaMakoExtractor({"comment-tags": ""})("x.mako", O(), io.StringIO(src))]
babel = [(m[0], m[2]) for m in babel_extract(io.BytesIO(src.encode()), ["_"], [], {})]
print(lingua)
print(babel)
assert lingua == babel == [(2, "two"), (4, "four"), (6, "six"), (8, "eight")]
