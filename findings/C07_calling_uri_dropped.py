"""C07 finding (repaired): Namespace.__init__ and ModuleNamespace.__init__
accepted calling_uri and dropped it, so get_template()/include_file() on an
inline-def or module namespace written in /sub/a.html resolved a relative URI
against the lookup root instead of /sub/."""
from mako.lookup import TemplateLookup
from mako import exceptions

lk = TemplateLookup()
lk.put_string("/sub/b.html", "SUB-B")
lk.put_string("/b.html", "ROOT-B")
lk.put_string("/sub/a.html", '''<%namespace name="ns"><%def name="d()">x</%def></%namespace>\\
<%namespace name="m" module="os.path"/>\\
${ns.get_template("b.html").render()}|${m.get_template("b.html").render()}|<% ns.include_file("b.html") %>''')
out = lk.get_template("/sub/a.html").render().strip()
print(out)
if out != "SUB-B|SUB-B|SUB-B":
    print("DEFECT: relative URI resolved against the root")
    raise SystemExit(1)
print("ok")
