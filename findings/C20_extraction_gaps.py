"""C20 findings: gettext calls (1) inside the filter list of an expression and
(2) inside defs written in a <%namespace> tag were never extracted (both
repaired); (3) a call in an attribute on a continuation line of a multi-line
tag is reported on the tag's first line (recorded)."""
import io
from mako.ext.babelplugin import extract

src = b'''<%namespace name="ns">
  <%def name="d()">${_("in namespace def")}</%def>
</%namespace>
${x | fmt(_("in filter"))}
<%def
   name="f(y=_('on line 6'))">z</%def>
'''
got = {m[2]: m[0] for m in extract(io.BytesIO(src), ["_"], [], {})}
print(got)
bad = 0
for msg, line in (("in namespace def", 2), ("in filter", 4)):
    if got.get(msg) != line:
        print("DEFECT: %r extracted at %r, expected line %d" % (msg, got.get(msg), line)); bad += 1
if got.get("on line 6") != 6:
    print("KNOWN: 'on line 6' reported at line %r (tag starts on line 5)" % got.get("on line 6"))
raise SystemExit(1 if bad else 0)
