"""C19 finding (repaired): PythonPrinter._in_multi_line counted triple quotes
inside comments (and did not distinguish the two quote kinds), unlike
adjust_whitespace: a `#` comment containing \"\"\" inside a block made the
printer stop re-indenting, and the module did not compile."""
from mako.template import Template

bad = 0
for name, src, want in (
    ("comment containing a triple quote", '<%def name="f()">\n<%\n    x = 1  # a """ in a comment\n    y = 2\n%>${x + y}</%def>${f()}', "3"),
    ("other quote kind inside a string", "<%def name=\"f()\">\n<%\n    s = '''a \"\"\" b\n  c'''\n    y = 2\n%>${len(s) + y}</%def>${f()}", "13"),
):
    try:
        got = Template(src).render().strip()
    except Exception as e:
        got = "%s: %s" % (type(e).__name__, str(e)[:60])
    ok = got == want
    bad += not ok
    print("%-6s %-36s -> %s" % ("ok" if ok else "DEFECT", name, got))
raise SystemExit(1 if bad else 0)
