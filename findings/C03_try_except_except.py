"""C03 finding (found by C03.skeletons): a `% try:` with two `% except` clauses
generated ill-indented Python: the printer recorded no indent detail for
`except`, so the second `except` was not recognised as an unindentor and was
nested inside the first.  Before the fix: bare SyntaxError at compile time."""
from mako.template import Template

src = "% try:\n${a()}\n% except KeyError:\nK\n% except ValueError:\nV\n% endtry\n"


def boom():
    raise ValueError()


try:
    out = Template(src).render(a=boom)
except SyntaxError as e:
    print("DEFECT:", type(e).__name__, e)
    raise SystemExit(1)
assert out == "V\n", out
print("ok")
