"""C05/C17 finding: a nested <%def buffered="True" cached="True"> wrote its
content at the call site instead of returning it (write_inline_def passed the
literal False as `buffered` to write_cache_decorator).
Before the fix prints 'C[]' ; after '[C]' (same as the uncached def)."""
from mako.template import Template
from mako import cache as mcache


class DictImpl(mcache.CacheImpl):
    store = {}
    def get_or_create(self, key, fn, **kw):
        k = (self.cache.id, key)
        if k not in self.store:
            self.store[k] = fn()
        return self.store[k]
    def invalidate(self, key, **kw):
        self.store.pop((self.cache.id, key), None)


mcache.register_plugin("dictimpl", __name__, "DictImpl")
import sys
sys.modules.setdefault(__name__, sys.modules["__main__"])
src = '''<%def name="outer()"><%def name="inner()" buffered="True" CACHED>C</%def><% v = inner() %>[${v}]</%def>${outer()}'''
plain = Template(src.replace("CACHED", "")).render().strip()
cached = Template(src.replace("CACHED", 'cached="True"'), cache_impl="dictimpl").render().strip()
print(plain, cached)
assert plain == "[C]"
if cached != plain:
    print("DEFECT: cached nested buffered def renders", cached)
    raise SystemExit(1)
print("ok")
