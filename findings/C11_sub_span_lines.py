"""C11 findings (recorded): a syntax error in a fragment that starts on a
later line than its node is reported on the node's first line:
 1. the filter list after `|` of a multi-line expression;
 2. an attribute expression on a continuation line of a multi-line tag
    (the lexer keeps no attribute positions: not a small repair)."""
from mako.template import Template
from mako import exceptions

bad = 0
for name, src, want in (
    ("filter list on line 3", "a\n${ x |\n  f(,) }\n", 3),
    ("tag attribute on line 3", "a\n<%def name=\"f()\"\n   buffered=\"${1 +}\">x</%def>\n", 3),
    ("def signature on line 3", "a\n<%def\n  name=\"f(x=)\">x</%def>\n", 3),
):
    try:
        Template(src)
        print("no error?", name)
    except (exceptions.SyntaxException, exceptions.CompileException) as e:
        ok = e.lineno == want
        bad += not ok
        print("%-6s %-26s reported line %d, fault is on line %d" % ("ok" if ok else "DEFECT", name, e.lineno, want))
raise SystemExit(1 if bad else 0)
