"""C08 finding (repaired): write_variable_declares iterated a set, so nested
defs and context look-ups were emitted in PYTHONHASHSEED order; a nested def
whose default names a context variable failed with UnboundLocalError under
some seeds.  Runs the template under several seeds in subprocesses."""
import os, subprocess, sys

prog = r'''
from mako.template import Template
t = Template('<%def name="outer()"><%def name="inner(x=zfoo)">${x}</%def><%def name="a(y=zfoo)">${y}</%def>${inner()}${a()}</%def>${outer()}')
print(t.render(zfoo="ok").strip())
print(hash(t.code) % 1000 if False else len(t.code))
'''
outs = set(); bad = 0
codes = set()
for seed in range(0, 12):
    env = dict(os.environ, PYTHONHASHSEED=str(seed))
    r = subprocess.run([sys.executable, "-c", prog], capture_output=True, text=True, env=env)
    res = r.stdout.strip().split("\n")[0] if r.returncode == 0 else r.stderr.strip().split("\n")[-1]
    outs.add(res)
    if res != "okok":
        bad += 1
        print("seed", seed, "->", res)
print("distinct results:", outs)
raise SystemExit(1 if bad or len(outs) != 1 else 0)
