"""C20 finding (found by C20.comment-window, repaired): a node that is neither a
comment nor one of the scanned constructs (plain text, <%text>, <%include>,
<%inherit> ...) did not end translator-comment collection, so an untagged ##
remark further down was collected too, and both were attached to a message the
tagged comment does not immediately precede."""
import io
from mako.ext.babelplugin import extract

src = b'''## TRANSLATORS: about the heading
<h1>not a message</h1>
## just a remark
${_("body text")}
'''
msgs = list(extract(io.BytesIO(src), ["_"], ["TRANSLATORS:"], {}))
print(msgs)
comments = msgs[0][3]
if comments:
    print("DEFECT: comments attached to a message they do not precede:", comments)
    raise SystemExit(1)
print("ok")
