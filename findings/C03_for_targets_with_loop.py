"""C03/C11 finding: `% for` lines whose target is not a plain name tuple
(attribute, subscript, starred, nested) aborted compilation with a bare
SyntaxError("Couldn't apply loop context") as soon as the body used `loop`."""
from mako.template import Template


class O:
    pass


cases = [
    ("% for o.p in xs:\n${loop.index}:${o.p}\n% endfor\n", dict(o=O(), xs=[7, 8]), "0:7\n1:8\n"),
    ("% for d['k'] in xs:\n${loop.index}:${d['k']}\n% endfor\n", dict(d={}, xs=[7]), "0:7\n"),
    ("% for a, *b in xs:\n${loop.last}:${a}${b}\n% endfor\n", dict(xs=[(1, 2, 3)]), "True:1[2, 3]\n"),
    ("% for x in 1, 2:\n${loop.index}${x}\n% endfor\n", dict(), "01\n12\n"),
    ("% for (a, (b, c)) in xs: # comment\n${loop.first}${a}${b}${c}\n% endfor\n", dict(xs=[(1, (2, 3))]), "True123\n"),
]
bad = 0
for src, data, want in cases:
    try:
        got = Template(src).render(**data)
    except Exception as e:
        print("DEFECT:", repr(src.split("\n")[0]), type(e).__name__, e)
        bad += 1
        continue
    assert got == want, (src, got)
if bad:
    raise SystemExit(1)
print("ok")
