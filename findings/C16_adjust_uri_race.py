"""Demonstration for the C16 finding `adjust_uri check-then-read`.

The interleaving "thread B evicts `key` from the bounded _uri_cache between
thread A's `key in cache` and `cache[key]`" is forced deterministically by a
cache whose membership test performs B's eviction right after answering.
Before the fix: KeyError escapes adjust_uri (undocumented).  After: value returned.
run: /venv/bin/python findings/C16_adjust_uri_race.py
"""
from mako.lookup import TemplateLookup
from mako import util


class Evicting(util.LRUCache):
    def __contains__(self, key):
        present = dict.__contains__(self, key)
        if present:
            dict.__delitem__(self, key)  # what another thread's _manage_size does
        return present


lk = TemplateLookup(collection_size=2)
lk._uri_cache = Evicting(2)
assert lk.adjust_uri("b.html", "/sub/a.html") == "/sub/b.html"
try:
    v = lk.adjust_uri("b.html", "/sub/a.html")
except KeyError as e:
    print("DEFECT: KeyError", e)
    raise SystemExit(1)
assert v == "/sub/b.html"
print("ok")
