"""C12 findings (recorded, not repaired: test_template.py::test_metadata pins
the current line maps): template frames whose current line is an emitted line
with no start_source before it are reported against an unrelated template
line.  Each case prints the template line RichTraceback reports for the frame
of interest and the line where the construct really begins."""
import sys
from mako.template import Template
from mako.lookup import TemplateLookup
from mako import exceptions


def frames(fn):
    try:
        fn()
    except Exception:
        tb = exceptions.RichTraceback()
        return [(r[2], r[5], (r[6] or "").strip()) for r in tb.records if r[4] is not None]
    raise AssertionError("no exception")


bad = 0


def case(name, got, want):
    global bad
    flag = "DEFECT" if got != want else "ok"
    if got != want:
        bad += 1
    print("%-7s %-34s reported line %r, construct begins on line %r" % (flag, name, got, want))


def boom(*a, **k):
    raise ValueError("boom")


# 1. named block: the render_body frame that calls the block is reported at an earlier line
t = Template("line1\n\n\n<%block name='b'>\n${boom()}\n</%block>\n")
fr = frames(lambda: t.render(boom=boom))
case("block call (render_body frame)", [f for f in fr if f[0] == "render_body"][0][1], 4)

# 2. stub of a top-level def called from the body
t = Template("a\nb\n<%def name='f()'>\n${boom()}\n</%def>\nx\ny\n${f()}\n")
fr = frames(lambda: t.render(boom=boom))
case("top-level def stub frame", [f for f in fr if f[0] == "f"][0][1], 3)

# 3. body prologue without <%page>: strict_undefined NameError
t = Template("one\ntwo\n${missing}\n", strict_undefined=True)
fr = frames(lambda: t.render())
case("render_body prologue (no <%page>)", fr[-1][1], 1)

# 4. filter= applied when the def ends
t = Template("<%def name='f()' filter='boom'>\na\n${1}\nb\n</%def>\n${f()}\n")
fr = frames(lambda: t.render(boom=boom))
case("def filter applied at end of def", [f for f in fr if f[0] == "render_f"][0][1], 1)

# 5. <%text filter=...>
t = Template("x\n<%text\n   filter='boom'>\na\nb\n</%text>\n")
fr = frames(lambda: t.render(boom=boom))
case("<%text filter> application", fr[-1][1] if fr[-1][0] != "boom" else fr[-2][1], 2)

# 6. <%inherit> with an unresolvable target
lk = TemplateLookup()
lk.put_string("c.html", "a\nb\n<%inherit file='nope.html'/>\n")
fr = frames(lambda: lk.get_template("c.html").render())
case("<%inherit> lookup failure", [f for f in fr if f[0] == "_mako_inherit"][0][1], 3)

# 7. nested def: decorator evaluated where the def is emitted
t = Template("a\n<%def name='o()'>\nb\n<%def name='i()' decorator='boom'>\nc\n</%def>\n${i()}\n</%def>\n${o()}\n")
fr = frames(lambda: t.render(boom=boom))
case("nested def decorator", [f for f in fr if f[0] == "render_o"][0][1], 4)

# 8. cached def: the wrapper frame
from mako import cache as mcache


class Impl(mcache.CacheImpl):
    def get_or_create(self, key, fn, **kw):
        raise ValueError("backend")


mcache.register_plugin("c12impl", __name__, "Impl")
sys.modules.setdefault(__name__, sys.modules["__main__"])
t = Template("a\nb\n<%def name='f()' cached='True'>\nx\n${1}\ny\n</%def>\nc\n${f()}\n", cache_impl="c12impl")
fr = frames(lambda: t.render())
case("cache wrapper frame", [f for f in fr if f[0] == "render_f"][0][1], 3)

# 9. call with content: default of the body's args evaluated at `def body(...)`
t = Template("<%def name='f()'>${caller.body()}</%def>\na\nb\n<%call expr='f()' args='x=boom()'>\nz\n</%call>\n")
fr = frames(lambda: t.render(boom=boom))
case("<%call args=> default evaluation", [f for f in fr if f[0] == "ccall"][0][1], 4)

print("%d defects" % bad)
raise SystemExit(1 if bad else 0)
