"""C01 findings found by C01.zero-width-consumer / C01.no-EDA (all repaired):
1. "a </% b": the `<` of an incomplete closing tag was silently dropped;
2. "<%text></%text>": an empty <%text> body raised a spurious "Unclosed tag";
3. a `##` / `%` line containing a lone CR lost its first character;
4. the attribute loop of the tag-start regex was exponentially ambiguous."""
import time
from mako.template import Template
from mako import exceptions

bad = 0


def check(name, fn, want):
    global bad
    try:
        got = fn()
    except Exception as e:
        got = "%s: %s" % (type(e).__name__, str(e)[:60])
    ok = got == want
    bad += not ok
    print("%-6s %-28s got %r want %r" % ("ok" if ok else "DEFECT", name, got, want))


check("incomplete closing tag", lambda: Template("a </% b").render(), "a </% b")
check("empty <%text>", lambda: Template("x<%text></%text>y").render(), "xy")
check("lone CR in ## line", lambda: Template("a\n## c\rb\nz").render(), "a\nz")
check("lone CR text kept", lambda: Template("a\rb\n").render(), "a\rb\n")
t0 = time.time()
try:
    Template("<%a " + "= " * 24 + "!")
except exceptions.MakoException:
    pass
dt = time.time() - t0
print("%-6s tag-start attribute loop: 24 tokens lexed in %.2fs" % ("ok" if dt < 1 else "DEFECT", dt))
bad += dt >= 1
raise SystemExit(1 if bad else 0)
