"""C19 findings in pyparser.FindIdentifiers (repaired): parameters other than
plain positional ones of nested functions / lambdas were demanded from the
context (spurious NameError under strict_undefined); names read only in
parameter defaults or in the element / conditions of a comprehension inside a
function were never fetched from the context."""
from mako.template import Template

bad = 0


def case(name, src, data, want, strict=True):
    global bad
    try:
        got = Template(src, strict_undefined=strict).render(**data).strip()
    except Exception as e:
        got = "%s: %s" % (type(e).__name__, str(e)[:50])
    ok = got == want
    bad += not ok
    print("%-6s %-44s -> %s" % ("ok" if ok else "DEFECT", name, got))


case("*args / **kw of a nested function", "<%\n def f(*a, **k):\n  return len(a) + len(k)\n%>${f(1, x=2)}", {}, "2")
case("keyword-only parameter of a lambda", "<% g = lambda *, key=3: key %>${g()}", {}, "3")
case("default reads a context name", "<%\n def f(v=base):\n  return v\n%>${f()}", dict(base=7), "7")
case("comprehension element inside a function", "<%\n def f(xs):\n  return [x + off for x in xs]\n%>${f([1])}", dict(off=10), "[11]")
case("comprehension condition inside a function", "<%\n def f(xs):\n  return [x for x in xs if x > lim]\n%>${f([1, 5])}", dict(lim=2), "[5]")
case("dict comprehension value inside a function", "<%\n def f(xs):\n  return {x: scale for x in xs}\n%>${f([1])}", dict(scale=2), "{1: 2}")
raise SystemExit(1 if bad else 0)
