"""C01 (known finding, not repaired): `%%` preceded by white space other than
blank/tab (form feed, vertical tab, NBSP, U+3000 ...) is an escape only when
the lexer happens to stand at the start of that line (template start, or
right after a control line / ## comment consumed the previous newline); in
running text the text matcher's stop `[ \\t]*(?=%|##)` does not recognise it
and both percent signs are output.

match_percent: (?<=^)(\\s*)%%(%*)      text stop: (?<=\\n)(?=[ \\t]*(?=%|\\#\\#))

Not repaired: narrowing match_percent to [ \\t]* changes the node split the
existing lexer tests pin (test_percent_escape, test_inline_percent expect the
leading blank lines inside the %-node)."""
from mako.template import Template

a = Template("% if True:\n\f%% done\n% endif\n").render()
b = Template("x\n\f%% done\n").render()
print(repr(a), repr(b))
assert a.count("%") == b.count("%"), "the same line yields %r after a control line and %r after a text line" % (a, b)
