"""C10 finding: the 'htmlentityreplace' codec error handler wrapped the bytes
returned by XMLEntityEscaper.escape in str(), yielding the repr."""
import mako.filters  # registers the handler
got = "The cost was €12 ☃.".encode("latin1", "htmlentityreplace")
print(got)
assert got == b"The cost was &euro;12 &#x2603;.", "DEFECT: %r" % got
print("ok")
