"""C18 findings (repaired):
1. a UTF-8 BOM together with '## -*- coding: UTF-8 -*-' (or utf8) was rejected
   as conflicting because the label was compared with the literal "utf-8";
2. mako-render --output-encoding wrote the bytes returned by render() to text
   streams (stdout and --output-file) -> TypeError (also a C08 path defect)."""
import codecs, io, os, sys, tempfile
from mako.template import Template
from mako import exceptions

bad = 0
for label in ("utf-8", "UTF-8", "utf8", "Utf_8"):
    data = codecs.BOM_UTF8 + ("## -*- coding: %s -*-\nhéllo" % label).encode("utf-8")
    try:
        out = Template(data).render_unicode()
        assert out == "héllo", out
        print("ok     BOM + coding:%s" % label)
    except exceptions.CompileException as e:
        print("DEFECT BOM + coding:%s -> %s" % (label, str(e)[:70]))
        bad += 1
try:
    Template(codecs.BOM_UTF8 + b"## -*- coding: latin-1 -*-\nx")
    print("DEFECT conflicting BOM accepted"); bad += 1
except exceptions.CompileException:
    print("ok     BOM + coding:latin-1 rejected")

from mako.cmd import cmdline
d = tempfile.mkdtemp()
src = os.path.join(d, "t.mako"); open(src, "w", encoding="utf-8").write("héllo ${x}")
out = os.path.join(d, "out.txt")
try:
    cmdline(["--var", "x=1", "--output-encoding", "utf-8", "--output-file", out, src])
    assert open(out, "rb").read() == "héllo 1".encode("utf-8")
    print("ok     mako-render --output-encoding --output-file")
except TypeError as e:
    print("DEFECT mako-render --output-file:", e); bad += 1


class Out(io.TextIOWrapper):
    pass


raw = io.BytesIO(); old = sys.stdout; wrapper = io.TextIOWrapper(raw, encoding="ascii"); sys.stdout = wrapper
try:
    try:
        cmdline(["--var", "x=1", "--output-encoding", "utf-8", src])
        sys.stdout.flush(); err = None
    except TypeError as e:
        err = e
    value = raw.getvalue()
finally:
    sys.stdout = old
if err is None and value == "héllo 1".encode("utf-8"):
    print("ok     mako-render --output-encoding to stdout")
else:
    print("DEFECT mako-render to stdout:", err, value); bad += 1
raise SystemExit(1 if bad else 0)
