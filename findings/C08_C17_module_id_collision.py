r"""C08/C17 finding (recorded, not repaired: a repair changes module names and
cache container names of every deployed template): module_id =
re.sub(r"\W", "_", uri) is not injective, so 'a/b.html' and 'a_b.html' share
one ModuleInfo registry entry and one cache id."""
from mako.lookup import TemplateLookup
from mako import cache as mcache
import sys

lk = TemplateLookup()
lk.put_string("a/b.html", "first ${x}")
lk.put_string("a_b.html", "second ${x}")
t1 = lk.get_template("a/b.html")
print("source of a/b.html:", repr(t1.source))
bad = t1.source != "first ${x}"


class DictImpl(mcache.CacheImpl):
    store = {}
    def get_or_create(self, key, fn, **kw):
        k = (self.cache.id, key)
        if k not in self.store:
            self.store[k] = fn()
        return self.store[k]


mcache.register_plugin("c08dict", __name__, "DictImpl")
sys.modules.setdefault(__name__, sys.modules["__main__"])
lk2 = TemplateLookup(cache_impl="c08dict")
lk2.put_string("a/b.html", '<%page cached="True"/>ONE')
lk2.put_string("a_b.html", '<%page cached="True"/>TWO')
o1 = lk2.get_template("a/b.html").render(); o2 = lk2.get_template("a_b.html").render()
print("renders:", o1, o2)
bad = bad or o2 != "TWO"
print("DEFECT" if bad else "ok")
raise SystemExit(1 if bad else 0)
