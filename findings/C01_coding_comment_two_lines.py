"""C01 (fixed): the coding-comment regex used \\s* after `coding:` and could
match across a line terminator; parse() skips the whole match, so the next
line of text vanished from the output.

Found by C01.escapes-consume [coding-comment.one-line] (max newline count of
the regex was unbounded)."""
from mako.template import Template

src = "# coding:\nhello world\nsecond line\n"
out = Template(src).render()
print(repr(out))
assert out == src, "text dropped: %r" % out
