#!/usr/bin/env python3
"""MANUAL tool: print the normalised form of functions, on /repo or on /repo with a stored change applied.
usage: tools/shownorm.py [benign/<id> | seeded/<id> | /abs/tree | -] <module.qualname> ..."""
import ast, os, shutil, subprocess, sys, tempfile
HERE = os.path.dirname(os.path.dirname(os.path.abspath(__file__)))
sys.path.insert(0, HERE)
which = sys.argv[1]
wt = None
root = "/repo"
try:
    if which.startswith("/"):
        root = which
    elif which != "-":
        wt = tempfile.mkdtemp(prefix="shown-")
        shutil.copytree("/repo/mako", os.path.join(wt, "mako"), ignore=shutil.ignore_patterns("__pycache__"))
        d = os.path.join(HERE, which)
        p = os.path.join(d, "change.diff") if os.path.exists(os.path.join(d, "change.diff")) else os.path.join(d, "patch.diff")
        subprocess.run(["git", "apply", p], cwd=wt, check=True)
        root = wt
    os.environ["VERIF_REPO"] = root
    from verif.engine import facts
    db = facts.DB(root)
    for q in sys.argv[2:]:
        try:
            print(ast.unparse(db.func(q)))
        except Exception as e:
            print("??", q, e)
            pass
        print()
finally:
    if wt:
        shutil.rmtree(wt, ignore_errors=True)
