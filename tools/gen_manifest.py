#!/usr/bin/env python3
"""Regenerate MANIFEST.json from the table below + which rule modules exist."""
import json, os, sys
here = os.path.dirname(os.path.dirname(os.path.abspath(__file__)))
sys.path.insert(0, here)

CLAIMS = {
 # id: (technique, level text, level note, design ref)
 "C01": ("regex syntax-tree analysis (nullability, zero-width stops, cascade order, exponential ambiguity via NFA self-product) + who-may-write and provenance rules over the lexer's AST",
         "Decides structural necessary conditions of 'no character dropped/duplicated' and of the polynomial time bound for every template string: cursor ownership and strict progress, every zero-width way of matching has a guaranteed consumer, cascade order by literal prefix, verbatim flow of text into the emitted write, no exponentially ambiguous regex reachable from Lexer.parse, CR/LF handling in consuming terminators, line-count accounting, termination of the pygen line scanners (every trip round their loop shortens the line), the text regex stops wherever an earlier matcher can begin (product of prefix automata), what the text matcher and the coding-comment skip may consume without a node (finite language / newline bound), regex match results are dereferenced only under a test. It does not decide what each regex matches on every string.",
         "trusts re._parser trees and the representative-alphabet partition; node boundaries/positions for arbitrary input and Unicode behaviour of \\s/\\w are not decided", "4/C01"),
 "C02": ("symbolic evaluation of create_filter_callable over its guard atoms + call-site and table cross-checks",
         "Decides for every configuration (guard-atom assignment) the composition order of default/page/local filters, the nesting order of the emitted calls, which sites apply expression defaults, that every built-in flag resolves to the documented function (flag table and what the names are bound to), that the configured filter lists are never extended in place, and that the printer alters an emitted expression only in front of its first line. Does not decide the expression scanner on arbitrary nesting.",
         "trusts the abstract evaluation of list concatenation / membership tests; filter arguments re-emission is under C19", "4/C02"),
 "C03": ("abstract model of emitted code (skeleton programs) checked for well-formedness and loop-stack typestate; keyword-table cross-check; regex alphabet projection; linear-form comparison of LoopContext members",
         "Decides that every control-line / block shape the generator can emit is well-formed under the printer's own indentation tables, that the loop context push/pop/rebind is paired on every exit (exhaustion, break, exception, return) for every template, that loop emission is guarded by an enable_loop flag that is only ever raised, the LoopStack discipline (parent = top at push), which child list the auto-`pass` decision reads, that the text regex stops before every % line however it is indented, and the algebra of LoopContext members. Does not decide equivalence with Python semantics of user code.",
         "trusts the checker's re-implementation of PythonPrinter.writeline parameterised by pygen's regexes", "4/C03"),
 "C04": ("CFG dominance, ownership/write-effect rule over runtime.py, sibling agreement, emitted-skeleton inspection",
         "Decides: reserved-name checks dominate rendering and compilation on all paths; Context data is only mutated on private copies (API never hands out the shared dict); the lookup siblings agree on order (data, builtins); strict_undefined emission raises NameError and import namespaces precede the context. The scope analysis of _Identifiers itself is not decided.",
         "Python scoping semantics are not modelled", "4/C04"),
 "C05": ("typestate dataflow over the CFGs of reconstructed skeleton programs for every flag assignment (buffered x filtered x cached x callstack x in_def x decorator), with effect summaries derived from runtime.py",
         "Decides for every template and every raise/return point: caller-frame, buffer and writer pairing of top-level defs, inline defs and calls with content; return convention per flag combination; nextcaller arm/disarm; agreement of the two def emitters and the cache wrapper; ParseFunc reads every ast.arguments field; mixed attribute values keep every non-empty piece in order; nested defs shadow top-level defs of the same name; defaults are aligned with the trailing positional parameters (no count of the parameter list is taken while it still holds the *args name); the def stub passes the body's locals under the condition under which they are created; no context manager swallows an exception by accident. Python's argument binding is not decided.",
         "covers what the generator can emit; user code is an opaque may-raise/return region", "4/C05"),
 "C06": ("emitted-skeleton guard inspection, who-may-write on def registries, sibling order comparison of __getattr__ implementations, provenance in _inherit_from",
         "Decides the compile-time sentences (duplicate/misplaced blocks rejected on every path) and the shape of dispatch (block guard, self-dispatch, lookup order callables->own->inherits in all namespace kinds, inherits/parent/local wiring). Dispatch results for arbitrary chains are not decided.",
         "run-time linked list of namespaces not enumerated", "4/C06"),
 "C07": ("call-graph single-gateway rule, parameter-flow (accepted-but-dropped parameter) rule, emitted-call inspection, effect summary of _clean_inheritance_tokens",
         "Decides: every template lookup at run time goes through one gateway that adjusts the URI relative to the calling template and translates the exception; every emitted/include/namespace site passes the calling URI and each receiver uses it; included templates and namespaces get a context stripped of exactly self/parent/next; include args take precedence over context; memo keys hold what the memoised value depends on; the import= flag is monotone; anonymous namespaces get unique names. URI arithmetic for all spellings is not decided.",
         "posixpath.join/dirname semantics trusted", "4/C07"),
 "C08": ("determinism lint (set-typed iteration reaching emission), writer/reader agreement of module attributes and metadata, taint rule for lossy identity keys, pipeline-wiring comparison",
         "Decides: no hash-order dependent emission that can change meaning; every module attribute/metadata key read is written under the same name; render_ prefix agrees at all sites; registry key injectivity; both compile paths and all render entry points share one pipeline with identical wiring. Equality of outputs across paths as such is not decided.",
         "type lattice is definite-only; summaries of ModuleType/load_module naming trusted", "4/C08"),
 "C09": ("CFG dominance of the containment guard + op-chain (provenance) agreement of the two URI normalisers + who-may-open scan",
         "Decides for every URI: the '..' guard dominates every source read and module-path derivation; lookup and Template canonicalise identically (backslash->slash, strip leading slashes, normpath) in a safe order, strip before join; module path derives from the validated value only; the uri given to Template is the one whose normal form located the file; no other file-reading primitive in runtime/lookup; a file-system probe on a URI-derived path only leads to _load; the normaliser chain removes every leading run of / and \\ up to length 4 (evaluated on the extracted chain); module files are created beside their final path.",
         "posixpath.normpath/join semantics trusted; symlinks, Windows semantics and user modulename_callable not decided", "4/C09"),
 "C10": ("regex character-class vs table agreement, type-flow through the codec error handler, structural checks of the small filters",
         "Decides: xml_escape's class equals its table and covers the five markup characters; the entity escaper's class covers markup + all non-ASCII so the ASCII encode cannot fail; the error handler returns (str, int) and never the repr of bytes; Decode returns str on every branch; trim/url_escape/html_escape bindings. 'For every string' behaviour of markupsafe/urllib/codecs is trusted, round trips not decided.",
         "third-party escaping functions trusted", "4/C10"),
 "C11": ("exhaustive call-site rule (position kwargs carried to every parser/raise), error-discipline scan, offset algebra of wrapped fragments, start-position capture ordering",
         "Decides: every embedded-Python parse and every raise of a Mako syntax/compile exception carries the owning node's source/line/pos/filename; only Mako exception classes are raised on the compile path; the line offset of each wrapped fragment equals minus the newlines prepended; scanners save the start position before scanning; all construction paths pass filename and source. The line value for every layout is not decided.",
         "regex match positions not modelled", "4/C11"),
 "C12": ("line-accounting pairing in PythonPrinter, start_source dominance in emitters, writer/reader index-base agreement for line maps, lexical region rule for warning translation",
         "Decides: each stream write is matched by a line-counter update of the newlines written; emitters record a source line (>=1) before lines that can appear in traceback frames; full_line_map writer/readers agree on index base; every compile/exec/load of generated code lies inside the warning-translation region with the same identifier, and the hook is restored in finally; RichTraceback tells template frames from ordinary ones by identity with None (a blank template line is a value), memoises per frame file name, and module-directory modules are registered under an absolute path. What RichTraceback prints for arbitrary chains is not decided.",
         "warnings filter state machine not modelled", "4/C12"),
 "C13": ("typestate dataflow over CFGs (with exceptional and return edges) of the skeleton programs of every construct and flag assignment; CFG pairing rule on runtime helpers; except-clause scan; write-effect scan",
         "Decides for every template, nesting depth and raise point that every stack push the generator can emit (buffer, caller frame, loop, nextcaller, writer binding) is released LIFO on every exit with no may-raise statement before a release, that partial buffers are not written on the exceptional path, that handlers re-raise the original exception, and that rendering stores nothing on the Template. Behaviour of user handlers/decorators/cache back ends is not decided.",
         "generated code only through PythonPrinter; user code does not touch private stacks", "4/C13"),
 "C14": ("CFG must-pass-through (failure cleanup), branch-polarity check, ordered search check, who-may-write on the collection, LRU normal forms",
         "Decides structural necessary conditions: failed compilation evicts and re-raises on every exceptional path; the cached template is returned only on the fresh branch and otherwise evicted then reloaded; directories searched in order, first hit returned, exhaustion raises TopLevelLookupException; every LRU insertion goes through the size manager with bound capacity*(1+threshold<=0.5), eviction removes oldest, reads stamp recency and return the stored value. Histories of file-system events are not decided.",
         "clocks and file-system histories not enumerated", "4/C14"),
 "C15": ("ordering/typestate rule on the atomic publish protocol, who-may-write scan over the package, staleness condition check, post-dominance of load after regenerate",
         "Decides: temp file created in the destination directory, write < close < move(tmp, outputpath) on every path, outputpath written by nothing else; file-writing primitives only at listed sites; regeneration on exactly missing / older / magic mismatch, each followed by a load before use; module_writer receives (bytes, path) and is the only writer on its path; verify_directory's retry loop is bounded. Crash points inside OS calls are not decided (rename atomicity trusted).",
         "os.rename/shutil.move atomicity on one file system trusted", "4/C15"),
 "C16": ("lock pairing on CFG with exceptional edges, double-checked read inside the locked region, no-reentry via call graph, check-then-act lint on shared evicting caches, shared-state write scan of the render path",
         "Decides structural necessary conditions: every acquire is released on all exits; the second-chance read and the store are inside the locked region; nothing reachable under the lock re-acquires it; no membership-test-then-subscript on evicting shared caches without KeyError handling; render-time writes go to per-render objects or allow-listed idempotent memos; LRU tolerates concurrent deletion; no module-level instance of a new class keeps per-call state, per-render closures store nothing on captured objects, no module is taken out of sys.modules. Interleavings are not decided.",
         "schedules not enumerated (a model-checking question)", "4/C16"),
 "C17": ("name agreement between code generator and invalidate_*; skeleton check of the cache wrapper; dict-update order; guard dominance; identity-key taint",
         "Decides: cached callables are registered under the names invalidate_* use; the wrapper saves the original, calls _ctx_get_or_create(key, lambda: original(args), context, ..., __M_defname=name), writes once or returns when buffered, with the same convention as the wrapped callable at both emit sites; page cache_* args are overridden by the section's, template cache_args by call kwargs, timeout -> int; cache_enabled False bypasses the backend; Cache.id injectivity. At-most-once execution over histories is not decided.",
         "cache back ends trusted", "4/C17"),
 "C18": ("value-precedence chain normalisation, label-comparison lint, try/except wrapping, provenance agreement of module encoding, capture-class equality of coding regexes, str|bytes type flow into text streams",
         "Decides: encoding precedence comment > input_encoding > utf-8 on both branches; encoding labels from user text compared only after codec normalisation; decode errors and contradicted BOM raise CompileException, BOM removed exactly; module source encoding, emitted coding comment and _source_encoding share provenance; writer/reader coding-regex classes agree; render returns encoded bytes iff output_encoding and render_unicode ignores it; no str|bytes value reaches a text stream unconverted. Byte-level round trips per codec are not decided.",
         "codecs trusted", "4/C18"),
 "C19": ("exhaustiveness of hand-written AST translators against the running interpreter's grammar metadata (ast._fields), precedence/parenthesisation rule, field-coverage rule for FindIdentifiers, sibling feature comparison of the two re-margining scanners",
         "Decides: the expression re-emitter handles every expression node class, operator and arguments field of the grammar (or delegates to ast.unparse), parenthesises loosely binding forms; FindIdentifiers visits every child field and binds every parameter kind; each parsetree consumer subtracts self-bound names; the two multi-line scanners track the same lexical features. Evaluation equality is not decided.",
         "CPython's ast metadata is the grammar reference", "4/C19"),
 "C20": ("dispatch exhaustiveness of extract_nodes against parsetree's Python-bearing fields, descent rule, offset algebra, sub-span rule",
         "Decides: every Python-bearing field parsetree parses for the constructs in the statement (incl. filters and namespace children) is in the code the extractor scans, tags with Python-bearing children are descended, nothing is produced for Text/TextTag/Comment, line offsets compensate the prepended newline on the Babel and on the Lingua path (stripped leading lines are counted, elif scanned as if), translator-comment collection starts at a tagged comment (every configured tag tried, no empty tag) and ends at every other node on every path. What Babel's/Lingua's Python extractors find inside a fragment is not decided.",
         "Babel/Lingua extract_python trusted", "4/C20"),
}

NA_REASON = "rules for this property are not implemented yet in this revision (see DESIGN.md section 4 for the planned structural clauses); not claimed until a sound check exists"

def main():
    props = [json.loads(l)["id"] for l in open(os.path.join(here, "properties.jsonl"))]
    checks, na = [], []
    na_file = os.path.join(here, "tools", "not_applicable.json")
    na_over = json.load(open(na_file)) if os.path.exists(na_file) else {}
    for p in props:
        mod = os.path.join(here, "verif", "rules", p.lower() + ".py")
        if os.path.exists(mod) and p not in na_over:
            tech, text, note, ref = CLAIMS[p]
            checks.append({
                "property_id": p,
                "quick_cmd": "./vcheck %s --tier quick" % p,
                "thorough_cmd": "./vcheck %s --tier thorough" % p,
                "evidence_file": "/verif/evidence/%s.json" % p,
                "replay_cmd_template": "./vcheck %s --replay {path}" % p,
                "engine": "vcheck",
                "level_claimed": {"category": "other", "text": "Static analysis (no execution). " + text, "design_ref": "DESIGN.md section " + ref},
                "level_note": note,
                "technique": "static analysis: " + tech,
            })
        else:
            na.append({"property_id": p, "reason": na_over.get(p, NA_REASON)})
    man = {
        "version": 1,
        "setup_cmd": "./vcheck --version",
        "hooks": {"guard": "MAKO_VERIF", "enable": "no hooks: nothing under /repo is executed by the checks; they parse /repo/mako/**/*.py on every run", "baseline_off_cmd": "cd /repo && /venv/bin/python -m pytest -ra -q -p no:cacheprovider --timeout=900 --continue-on-collection-errors", "source_commits": [], "add_only": True},
        "engines": [{"name": "vcheck", "path": "/verif/vcheck", "serves_properties": [c["property_id"] for c in checks],
                     "kind_free_text": "custom static analyser in stdlib Python: AST facts DB, statement CFG with exceptional edges, reaching definitions/provenance chains, abstract model of the code generator's emitted skeletons with typestate dataflow, regex syntax-tree analysis (re._parser) incl. exponential-ambiguity detection; all rules read a canonical form of the package (normaliser: helper unfolding against an inventory of the pinned tree's functions, explaining variables, canonical control flow, context managers / generators / small classes dissolved, class specialisation) so that behaviour-preserving refactorings do not change verdicts"}],
        "checks": checks,
        "notes": "All checks are static analyses of /repo's current working tree (never imported/executed). Exit 0 ok / 1 VIOLATION / 2 ANALYSIS-ERROR. known_findings.json lists recorded genuine defects; ./vcheck selftest runs seeded-defect and benign-twin variants on scratch copies; seeded/ (239 independently written breaking changes, SEEDED.md) and benign/ (independently written behaviour-preserving changes, BENIGN.md) are re-run with tools/check_seed.py and tools/check_benign.py.",
        "not_applicable": na,
    }
    json.dump(man, open(os.path.join(here, "MANIFEST.json"), "w"), indent=1)
    print("checks:", [c["property_id"] for c in checks], "n/a:", [n["property_id"] for n in na])

main()
