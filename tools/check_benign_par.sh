#!/bin/sh
# usage: tools/check_benign_par.sh [jobs]  -> /tmp/benign_now.txt (all benign changes, in parallel)
j=${1:-8}
cd /verif
ls benign | xargs -P $j -n 4 /venv/bin/python tools/check_benign.py > /tmp/benign_now.txt 2>&1
grep -c silent /tmp/benign_now.txt
grep -c ALARMS /tmp/benign_now.txt
