#!/usr/bin/env python3
"""MANUAL tool: confirm an independently written mutation and run the checks
against it.

usage: tools/eval_seeded.py <Cxx> <mutation.diff> <demo.py> <seed-id> [notes.md]

1. creates a scratch worktree of /repo HEAD under /tmp, 2. runs the demo on the
clean tree (must pass), 3. applies the patch, 4. runs the repository's test
suite (pass set must equal the baseline), 5. runs the demo (must fail),
6. runs `vcheck <Cxx>` and `vcheck all` against the mutated tree (VERIF_REPO),
7. stores patch/demo/meta under /verif/seeded/<seed-id>/ when the mutation is
confirmed, 8. removes the worktree.
"""
import json
import os
import re
import shutil
import subprocess
import sys
import tempfile

HERE = os.path.dirname(os.path.dirname(os.path.abspath(__file__)))
PY = "/venv/bin/python"
BASE_FAIL = {"test_custom_tback", "test_py_utf8_html_error_template", "test_utf8_format_exceptions_pygments"}


def run(cmd, cwd=None, env=None, timeout=900):
    try:
        r = subprocess.run(cmd, cwd=cwd, env=env, capture_output=True, text=True, timeout=timeout)
        return r.returncode, r.stdout + r.stderr
    except subprocess.TimeoutExpired as e:
        return 124, "TIMEOUT " + str(e)


def main():
    prop, patch, demo, sid = sys.argv[1:5]
    notes = sys.argv[5] if len(sys.argv) > 5 else None
    wt = tempfile.mkdtemp(prefix="evalwt-")
    os.rmdir(wt)
    rc, out = run(["git", "-C", "/repo", "worktree", "add", "-q", "--detach", wt, "HEAD"])
    assert rc == 0, out
    meta = dict(property=prop, seed_id=sid, confirmed=False)
    try:
        env = dict(os.environ, PYTHONPATH=wt, PYTHONDONTWRITEBYTECODE="1")
        shutil.copy(demo, os.path.join(wt, "_demo.py"))
        rc0, o0 = run([PY, "_demo.py"], cwd=wt, env=env, timeout=300)
        meta["demo_on_clean_tree"] = rc0
        rc, out = run(["git", "-C", wt, "apply", os.path.abspath(patch)])
        if rc != 0:
            meta["error"] = "patch does not apply: " + out[-300:]
            print(json.dumps(meta, indent=1))
            return 2
        rc, out = run([PY, "-m", "compileall", "-q", "mako"], cwd=wt, env=env)
        meta["compiles"] = rc == 0
        rct, ot = run([PY, "-m", "pytest", "-q", "-p", "no:cacheprovider", "--timeout=900", "-x", "--deselect", "test/test_exceptions.py::ExceptionsTest::test_custom_tback", "--deselect", "test/test_exceptions.py::ExceptionsTest::test_py_utf8_html_error_template", "--deselect", "test/test_exceptions.py::ExceptionsTest::test_utf8_format_exceptions_pygments"], cwd=wt, env=env, timeout=900)
        tail = ot.strip().split("\n")[-1]
        meta["tests"] = tail
        m = re.search(r"(\d+) passed", tail)
        tests_ok = rct == 0 and m and int(m.group(1)) == 567
        meta["tests_unchanged"] = bool(tests_ok)
        rc1, o1 = run([PY, "_demo.py"], cwd=wt, env=env, timeout=300)
        meta["demo_on_mutated_tree"] = rc1
        meta["demo_output_tail"] = o1.strip().split("\n")[-3:]
        os.remove(os.path.join(wt, "_demo.py"))
        venv = dict(os.environ, VERIF_REPO=wt, VERIF_EVIDENCE_DIR=os.path.join(wt, "_ev"), VERIF_OUT_DIR=os.path.join(wt, "_vout"))
        rcv, ov = run([os.path.join(HERE, "vcheck"), prop], cwd=HERE, env=venv, timeout=600)
        fired = [l.strip()[:260] for l in ov.split("\n") if l.startswith("  C") or l.startswith("ANALYSIS-ERROR")]
        meta["check_rc"] = rcv
        meta["check_fired"] = fired
        rca, oa = run([os.path.join(HERE, "vcheck"), "all"], cwd=HERE, env=venv, timeout=900)
        others = sorted({l.split()[0] for l in oa.split("\n") if l.startswith("  C")})
        meta["all_checks_fired"] = others
        meta["all_checks_errors"] = [l[:200] for l in oa.split("\n") if l.startswith("ANALYSIS-ERROR")]
        meta["confirmed"] = bool(rc0 == 0 and rc1 != 0 and tests_ok and meta["compiles"])
        meta["detected_by_property_check"] = rcv == 1
        meta["detected_by_any_check"] = bool(others)
        if meta["confirmed"]:
            d = os.path.join(HERE, "seeded", sid)
            os.makedirs(d, exist_ok=True)
            shutil.copy(patch, os.path.join(d, "patch.diff"))
            shutil.copy(demo, os.path.join(d, "demo.py"))
            if notes and os.path.exists(notes):
                shutil.copy(notes, os.path.join(d, "notes.md"))
            meta["what_it_needs"] = open(notes).read()[:1500] if notes and os.path.exists(notes) else ""
            meta["ran"] = ["demo on clean worktree (exit %d)" % rc0, "git apply patch.diff", "pytest (deselecting the 3 baseline failures): " + tail,
                           "demo on mutated worktree (exit %d)" % rc1, "VERIF_REPO=<worktree> ./vcheck %s (exit %d)" % (prop, rcv), "VERIF_REPO=<worktree> ./vcheck all"]
            with open(os.path.join(d, "meta.json"), "w") as f:
                json.dump(meta, f, indent=1)
        print(json.dumps({k: meta[k] for k in ("seed_id", "confirmed", "demo_on_clean_tree", "demo_on_mutated_tree", "tests", "check_rc", "check_fired", "all_checks_fired", "all_checks_errors")}, indent=1))
        return 0
    finally:
        run(["git", "-C", "/repo", "worktree", "remove", "--force", wt])
        shutil.rmtree(wt, ignore_errors=True)


if __name__ == "__main__":
    sys.exit(main())
