#!/usr/bin/env python3
"""MANUAL tool: re-run the checks against stored seeded changes (fast: no test
suite).  usage: tools/check_seed.py [seed-id ...]  (default: all under seeded/)
Updates meta.json['now'] with the current verdict of the property's own check
and of all checks."""
import json, os, subprocess, sys, tempfile, shutil
HERE = os.path.dirname(os.path.dirname(os.path.abspath(__file__)))
ids = sys.argv[1:] or sorted(os.listdir(os.path.join(HERE, "seeded")))
wt = tempfile.mkdtemp(prefix="seedwt-")
shutil.copytree("/repo/mako", os.path.join(wt, "mako"), ignore=shutil.ignore_patterns("__pycache__"))
try:
    for sid in ids:
        d = os.path.join(HERE, "seeded", sid)
        if not os.path.exists(os.path.join(d, "meta.json")):
            continue
        meta = json.load(open(os.path.join(d, "meta.json")))
        prop = meta["property"]
        r = subprocess.run(["git", "apply", os.path.join(d, "patch.diff")], cwd=wt, capture_output=True, text=True)
        if r.returncode != 0:
            print(sid, "PATCH-DOES-NOT-APPLY"); continue
        env = dict(os.environ, VERIF_REPO=wt, VERIF_EVIDENCE_DIR=os.path.join(wt, "_ev"), VERIF_OUT_DIR=os.path.join(wt, "_vout"))
        a = subprocess.run([os.path.join(HERE, "vcheck"), prop], cwd=HERE, env=env, capture_output=True, text=True)
        fired = sorted({l.split()[0] for l in a.stdout.split("\n") if l.startswith("  C")})
        b = subprocess.run([os.path.join(HERE, "vcheck"), "all"], cwd=HERE, env=env, capture_output=True, text=True)
        allf = sorted({l.split()[0] for l in b.stdout.split("\n") if l.startswith("  C")})
        errs = [l[:160] for l in (a.stdout + b.stdout).split("\n") if l.startswith("ANALYSIS-ERROR")]
        meta["now"] = dict(property_check_rc=a.returncode, property_rules_fired=fired, all_rules_fired=allf, analysis_errors=sorted(set(errs)))
        json.dump(meta, open(os.path.join(d, "meta.json"), "w"), indent=1)
        print("%-10s rc=%d own=%s all=%s%s" % (sid, a.returncode, fired, [x for x in allf if x not in fired], "  ERR=%d" % len(set(errs)) if errs else ""))
        shutil.rmtree(os.path.join(wt, "mako")); shutil.copytree("/repo/mako", os.path.join(wt, "mako"), ignore=shutil.ignore_patterns("__pycache__"))
finally:
    shutil.rmtree(wt, ignore_errors=True)
