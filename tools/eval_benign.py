#!/usr/bin/env python3
"""MANUAL tool: confirm an independently written behaviour-preserving change
and run every check against it (any alarm is a false alarm of the checker).

usage: tools/eval_benign.py <Cxx> <outdir> <N> <benign-id>
  <outdir>/change_N.diff, equiv_N.py [, expected_N.json], notes_N.md

1. scratch worktree of /repo HEAD under /tmp, 2. equiv_N.py on the clean tree
(must pass), 3. apply the change, 4. test suite (pass set must equal the
baseline), 5. equiv_N.py again (must pass), 6. `vcheck all` against the changed
tree, 7. stored under /verif/benign/<benign-id>/ when confirmed, 8. worktree
removed."""
import json
import os
import re
import shutil
import subprocess
import sys
import tempfile

HERE = os.path.dirname(os.path.dirname(os.path.abspath(__file__)))
PY = "/venv/bin/python"
DESELECT = ["--deselect", "test/test_exceptions.py::ExceptionsTest::test_custom_tback", "--deselect", "test/test_exceptions.py::ExceptionsTest::test_py_utf8_html_error_template",
            "--deselect", "test/test_exceptions.py::ExceptionsTest::test_utf8_format_exceptions_pygments"]


def run(cmd, cwd=None, env=None, timeout=900):
    try:
        r = subprocess.run(cmd, cwd=cwd, env=env, capture_output=True, text=True, timeout=timeout)
        return r.returncode, r.stdout + r.stderr
    except subprocess.TimeoutExpired as e:
        return 124, "TIMEOUT " + str(e)


def main():
    prop, outdir, n, bid = sys.argv[1:5]
    inplace = len(sys.argv) > 5 and sys.argv[5] == "--inplace"  # use the worktree the change was written in (its equivalence check may record absolute paths)
    patch = os.path.join(outdir, "change_%s.diff" % n)
    equiv = os.path.join(outdir, "equiv_%s.py" % n)
    if inplace:
        wt = os.path.dirname(os.path.abspath(outdir))
        rc, out = run(["git", "-C", wt, "status", "--porcelain", "--untracked-files=no"])
        assert rc == 0 and not out.strip(), "worktree %s is not clean: %s" % (wt, out)
    else:
        wt = tempfile.mkdtemp(prefix="benwt-")
        os.rmdir(wt)
        rc, out = run(["git", "-C", "/repo", "worktree", "add", "-q", "--detach", wt, "HEAD"])
        assert rc == 0, out
    meta = dict(property=prop, benign_id=bid, confirmed=False)
    try:
        env = dict(os.environ, PYTHONPATH=wt, PYTHONDONTWRITEBYTECODE="1")
        if not inplace:
            os.makedirs(os.path.join(wt, "_out"))
            for f in os.listdir(outdir):
                if f.startswith(("equiv_%s" % n, "expected_%s" % n)) or f.endswith(".json") or (f.endswith(".py") and not f.startswith("equiv_")):
                    shutil.copy(os.path.join(outdir, f), os.path.join(wt, "_out", f))
        rc0, o0 = run([PY, "_out/equiv_%s.py" % n], cwd=wt, env=env, timeout=600)
        meta["equiv_on_clean_tree"] = rc0
        rc, out = run(["git", "-C", wt, "apply", os.path.abspath(patch)])
        if rc != 0:
            meta["error"] = "patch does not apply: " + out[-300:]
            print(json.dumps(meta, indent=1))
            return 2
        rct, ot = run([PY, "-m", "pytest", "-q", "-p", "no:cacheprovider", "--timeout=900", "-x"] + DESELECT, cwd=wt, env=env, timeout=900)
        tail = ot.strip().split("\n")[-1]
        meta["tests"] = tail
        m = re.search(r"(\d+) passed", tail)
        meta["tests_unchanged"] = bool(rct == 0 and m and int(m.group(1)) == 567)
        rc1, o1 = run([PY, "_out/equiv_%s.py" % n], cwd=wt, env=env, timeout=600)
        meta["equiv_on_changed_tree"] = rc1
        if rc1 != 0:
            meta["equiv_output_tail"] = o1.strip().split("\n")[-3:]
        if not inplace:
            shutil.rmtree(os.path.join(wt, "_out"))
        venv = dict(os.environ, VERIF_REPO=wt, VERIF_EVIDENCE_DIR=os.path.join(wt, "_ev"), VERIF_OUT_DIR=os.path.join(wt, "_vout"))
        rca, oa = run([os.path.join(HERE, "vcheck"), "all"], cwd=HERE, env=venv, timeout=900)
        alarms = [l.strip()[:300] for l in oa.split("\n") if l.startswith("  C") or l.startswith("ANALYSIS-ERROR")]
        meta["alarms_at_first_run"] = alarms
        meta["confirmed"] = bool(rc0 == 0 and rc1 == 0 and meta["tests_unchanged"])
        if meta["confirmed"]:
            d = os.path.join(HERE, "benign", bid)
            os.makedirs(d, exist_ok=True)
            shutil.copy(patch, os.path.join(d, "change.diff"))
            shutil.copy(equiv, os.path.join(d, "equiv.py"))
            for f in os.listdir(outdir):
                if f.startswith("expected_%s" % n):
                    shutil.copy(os.path.join(outdir, f), os.path.join(d, f))
            nf = os.path.join(outdir, "notes_%s.md" % n)
            if os.path.exists(nf):
                shutil.copy(nf, os.path.join(d, "notes.md"))
            meta["what_was_run"] = "equiv on clean tree, git apply, pytest (567 passed required), equiv on changed tree, vcheck all with VERIF_REPO=<worktree>"
            json.dump(meta, open(os.path.join(d, "meta.json"), "w"), indent=1)
        print(json.dumps(meta, indent=1))
    finally:
        if inplace:
            run(["git", "-C", wt, "checkout", "-q", "--", "."])
            shutil.rmtree(os.path.join(wt, "_ev"), ignore_errors=True)
            shutil.rmtree(os.path.join(wt, "_vout"), ignore_errors=True)
        else:
            run(["git", "-C", "/repo", "worktree", "remove", "--force", wt])
            shutil.rmtree(wt, ignore_errors=True)


if __name__ == "__main__":
    sys.exit(main())
