#!/usr/bin/env python3
"""MANUAL tool (never run by a check): append the currently reported new
violations of a property to known_findings.json after they were triaged as
genuine defects.  usage: tools/record_findings.py Cxx "<what/demo reference>" [key-substring]"""
import json, os, subprocess, sys
here = os.path.dirname(os.path.dirname(os.path.abspath(__file__)))
prop, what = sys.argv[1], sys.argv[2]
sub = sys.argv[3] if len(sys.argv) > 3 else ""
subprocess.run([os.path.join(here, "vcheck"), prop], cwd=here, capture_output=True)
ev = json.load(open(os.path.join(here, "evidence", prop + ".json")))
kf = json.load(open(os.path.join(here, "known_findings.json")))
have = {(f["property"], f["rule"], f["key"]) for f in kf["findings"]}
n = 0
for v in ev["coverage"]["new_violations"]:
    if sub and sub not in v["key"] and sub not in v["rule"]:
        continue
    k = (prop, v["rule"], v["key"])
    if k in have:
        continue
    kf["findings"].append({"property": prop, "rule": v["rule"], "key": v["key"], "where": v["where"],
                           "what": what + " :: " + v["note"].split("\n")[0][:300]})
    n += 1
json.dump(kf, open(os.path.join(here, "known_findings.json"), "w"), indent=1)
print("recorded", n)
