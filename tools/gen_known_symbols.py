#!/usr/bin/env python3
"""MANUAL tool: write verif/engine/known_symbols.json - the inventory of
functions the rules treat as units (everything defined in /repo/mako at the
time the rules were written).  Functions outside the inventory are taken for
helpers introduced by a later refactoring and are inlined into their callers
before the analysis (engine/normalize.py, pass N5)."""
import ast, json, os, sys
here = os.path.dirname(os.path.dirname(os.path.abspath(__file__)))
sys.path.insert(0, here)
from verif.engine.normalize import qualnames
repo = sys.argv[1] if len(sys.argv) > 1 else "/repo"
out = []
pkg = os.path.join(repo, "mako")
for root, dirs, files in sorted(os.walk(pkg)):
    for fn in sorted(files):
        if fn.endswith(".py"):
            p = os.path.join(root, fn)
            rel = os.path.relpath(p, pkg)[:-3].replace(os.sep, ".")
            if rel.endswith(".__init__"):
                rel = rel[:-9]
            t = ast.parse(open(p, encoding="utf-8").read())
            out += [q for q, f, c, e in qualnames(t, rel)]
json.dump({"note": "inventory of function qualnames known to the rules; see tools/gen_known_symbols.py", "functions": sorted(out)}, open(os.path.join(here, "verif", "engine", "known_symbols.json"), "w"), indent=0)
print(len(out))
