#!/usr/bin/env python3
"""MANUAL tool: re-run every check against the stored behaviour-preserving
changes (benign/<id>/change.diff); prints the alarms (must be none) and
updates meta.json['now'].  usage: tools/check_benign.py [id ...]"""
import json, os, subprocess, sys, tempfile, shutil
HERE = os.path.dirname(os.path.dirname(os.path.abspath(__file__)))
ids = sys.argv[1:] or sorted(os.listdir(os.path.join(HERE, "benign")))
wt = tempfile.mkdtemp(prefix="benwt-")
shutil.copytree("/repo/mako", os.path.join(wt, "mako"), ignore=shutil.ignore_patterns("__pycache__"))
bad = 0
try:
    for bid in ids:
        d = os.path.join(HERE, "benign", bid)
        if not os.path.exists(os.path.join(d, "meta.json")):
            continue
        meta = json.load(open(os.path.join(d, "meta.json")))
        r = subprocess.run(["git", "apply", os.path.join(d, "change.diff")], cwd=wt, capture_output=True, text=True)
        if r.returncode != 0:
            print(bid, "PATCH-DOES-NOT-APPLY"); continue
        env = dict(os.environ, VERIF_REPO=wt, VERIF_EVIDENCE_DIR=os.path.join(wt, "_ev"), VERIF_OUT_DIR=os.path.join(wt, "_vout"))
        b = subprocess.run([os.path.join(HERE, "vcheck"), "all"], cwd=HERE, env=env, capture_output=True, text=True)
        alarms = [l.strip()[:300] for l in b.stdout.split("\n") if l.startswith("  C") or l.startswith("ANALYSIS-ERROR")]
        meta["now"] = dict(alarms=alarms)
        json.dump(meta, open(os.path.join(d, "meta.json"), "w"), indent=1)
        print("%-10s %s" % (bid, "silent" if not alarms else "%d ALARMS" % len(alarms)))
        for a in alarms:
            print("      " + a[:260])
        bad += len(alarms)
        shutil.rmtree(os.path.join(wt, "mako")); shutil.copytree("/repo/mako", os.path.join(wt, "mako"), ignore=shutil.ignore_patterns("__pycache__"))
finally:
    shutil.rmtree(wt, ignore_errors=True)
sys.exit(1 if bad else 0)
