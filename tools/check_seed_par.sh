#!/bin/sh
# usage: tools/check_seed_par.sh [jobs] -> /tmp/seeds_now.txt (all seeded changes, in parallel); prints the count caught by the own check and the misses
j=${1:-8}
cd /verif
ls seeded | xargs -P $j -n 8 /venv/bin/python tools/check_seed.py > /tmp/seeds_now.txt 2>&1
grep -c "rc=1" /tmp/seeds_now.txt
grep -v "rc=1" /tmp/seeds_now.txt | cut -c1-200
