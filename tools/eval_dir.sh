#!/bin/sh
# usage: tools/eval_dir.sh Cxx [round]   evaluates /tmp/mut/Cxx/_out/mutation_N.diff
p=$1; r=${2:-r1}
for n in 1 2 3; do
  d=${MUT_BASE:-/tmp/mut}/$p/_out
  [ -f $d/mutation_$n.diff ] || continue
  /venv/bin/python /verif/tools/eval_seeded.py $p $d/mutation_$n.diff $d/demo_$n.py $p-$r-$n $d/notes_$n.md 2>&1 | /venv/bin/python -c "
import sys,json
t=sys.stdin.read()
try:
    j=json.loads(t[t.index('{'):])
    print(j['seed_id'], 'confirmed' if j['confirmed'] else 'NOT-CONFIRMED(clean=%s mut=%s tests=%s)'%(j['demo_on_clean_tree'],j['demo_on_mutated_tree'],j['tests']), 'check_rc=%s'%j['check_rc'], 'others=%s'%j['all_checks_fired'], 'errors=%s'%len(j['all_checks_errors']))
    for f in j['check_fired'][:3]: print('     ', f[:230])
except Exception as e:
    print('EVAL-ERROR', e, t[-500:])
"
done
