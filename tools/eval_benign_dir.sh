#!/bin/sh
# usage: tools/eval_benign_dir.sh Cxx [round]   evaluates /tmp/ben/Cxx/_out/change_N.diff
p=$1; r=${2:-b1}
for n in 1 2 3 4; do
  d=${BEN_BASE:-/tmp/ben}/$p/_out
  [ -f $d/change_$n.diff ] || continue
  /venv/bin/python /verif/tools/eval_benign.py $p $d $n $p-$r-$n 2>&1 | /venv/bin/python -c "
import sys,json
t=sys.stdin.read()
try:
    j=json.loads(t[t.index('{'):])
    print(j['benign_id'], 'confirmed' if j['confirmed'] else 'NOT-CONFIRMED(clean=%s changed=%s tests=%s)'%(j.get('equiv_on_clean_tree'),j.get('equiv_on_changed_tree'),j.get('tests')), 'alarms=%d'%len(j.get('alarms_at_first_run',[])))
    for f in j.get('alarms_at_first_run',[])[:6]: print('     ', f[:230])
except Exception as e:
    print('EVAL-ERROR', e, t[-500:])
"
done
